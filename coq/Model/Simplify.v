(* Model/Simplify.v — faithful executable model of clipper.go:getNext, getPrior,
   SimplifyPath64 / SimplifyPathD (the greedy vertex-removal algorithm).
   Definitions only (plus computational sanity checks); the theorems are in
   SimplifyProofs.v.

   The model is parametric in the point type P, the distance type D, the
   perpendicular-distance function and the two comparisons, so that it covers
   the int64 and the float64 version of the Go code alike.

   Conventions.
   - Go slices are lists, Go ints used as indices are nat, slice reads are
     [nth_error] and slice writes are [set_nth]; an out-of-range access makes
     the whole function return [None].
   - Every Go loop is a fuel-indexed fixpoint; fuel exhaustion returns [None].
     SimplifyProofs.simplify_total shows [None] is never returned.
   - Go's `dsq[curr] <= epsSq` is modelled as [negb (gtb dsq[curr] eps2)].
     This is exact whenever no NaN occurs (always for the int64 version, where
     all operands of PerpendicDistFromLineSqr64 are finite and the divisor is
     a positive finite float).
   - Go's `make([]float64, l)` is zero-filled; D has no zero, so the model
     fills with [dmax].  Every cell is overwritten by the initialisation
     before it is read, so the filler is irrelevant. *)
From Coq Require Import List Bool Arith Lia ZArith QArith.
From Clip Require Import Base.Int64 Model.Arith.
Import ListNotations.
Close Scope Q_scope.
Close Scope Z_scope.
Open Scope nat_scope.

(* ---------- slice helpers ---------- *)
Section ListOps.
  Context {A : Type}.

  Fixpoint upd (l : list A) (i : nat) (v : A) : list A :=
    match l, i with
    | [], _ => []
    | _ :: t, 0 => v :: t
    | x :: t, S j => x :: upd t j v
    end.

  (* l[i] = v, with bounds check *)
  Definition set_nth (l : list A) (i : nat) (v : A) : option (list A) :=
    if i <? length l then Some (upd l i v) else None.

  (* for i, x := range l { if !flags[i] { result = append(result, x) } } *)
  Fixpoint select (flags : list bool) (l : list A) : list A :=
    match flags, l with
    | false :: fs, x :: t => x :: select fs t
    | true :: fs, _ :: t => select fs t
    | _, _ => []
    end.
End ListOps.

(* ---------- getNext / getPrior ---------- *)

Definition scan_fuel (flags : list bool) : nat := 2 * length flags + 2.

(* for current <= high && flags[current] { current++ } ; value of current at exit *)
Fixpoint next_up (fuel : nat) (flags : list bool) (high cur : nat) : option nat :=
  match fuel with
  | 0 => None
  | S f =>
      if cur <=? high then
        match nth_error flags cur with
        | None => None
        | Some true => next_up f flags high (S cur)
        | Some false => Some cur
        end
      else Some cur
  end.

(* for flags[current] { current++ } *)
Fixpoint first_clear_up (fuel : nat) (flags : list bool) (cur : nat) : option nat :=
  match fuel with
  | 0 => None
  | S f =>
      match nth_error flags cur with
      | None => None
      | Some true => first_clear_up f flags (S cur)
      | Some false => Some cur
      end
  end.

Definition getNext (flags : list bool) (high current : nat) : option nat :=
  match next_up (scan_fuel flags) flags high (S current) with
  | None => None
  | Some c =>
      if c <=? high then Some c
      else first_clear_up (scan_fuel flags) flags 0
  end.

(* for current > 0 && flags[current] { current-- } *)
Fixpoint prior_down (fuel : nat) (flags : list bool) (cur : nat) : option nat :=
  match fuel with
  | 0 => None
  | S f =>
      if 0 <? cur then
        match nth_error flags cur with
        | None => None
        | Some true => prior_down f flags (cur - 1)
        | Some false => Some cur
        end
      else Some cur
  end.

(* for flags[current] { current-- } ; stepping below 0 is an index error *)
Fixpoint first_clear_down (fuel : nat) (flags : list bool) (cur : nat) : option nat :=
  match fuel with
  | 0 => None
  | S f =>
      match nth_error flags cur with
      | None => None
      | Some false => Some cur
      | Some true =>
          match cur with
          | 0 => None
          | S c => first_clear_down f flags c
          end
      end
  end.

Definition getPrior (flags : list bool) (high current : nat) : option nat :=
  let c0 := if current =? 0 then high else current - 1 in
  match prior_down (scan_fuel flags) flags c0 with
  | None => None
  | Some c =>
      match nth_error flags c with
      | None => None
      | Some false => Some c
      | Some true => first_clear_down (scan_fuel flags) flags high
      end
  end.

(* ---------- SimplifyPath ---------- *)
Section Simplify.
  Variable P : Type.                 (* point type *)
  Variable D : Type.                 (* distance values *)
  Variable perp : P -> P -> P -> D.  (* PerpendicDistFromLineSqr pt line1 line2 *)
  Variable dmax : D.                 (* math.MaxFloat64 *)
  Variable gtb : D -> D -> bool.     (* a > b *)
  Variable ltb : D -> D -> bool.     (* a < b *)
  Variable eps2 : D.                 (* epsSq *)

  (* dsq[i] = perp(path[i], path[l1], path[l2]) *)
  Definition refresh (path : list P) (dsq : list D) (i l1 l2 : nat) : option (list D) :=
    match nth_error path i, nth_error path l1, nth_error path l2 with
    | Some p, Some a, Some b => set_nth dsq i (perp p a b)
    | _, _, _ => None
    end.

  (* for i := 1; i < high; i++ { dsq[i] = perp(path[i], path[i-1], path[i+1]) } *)
  Fixpoint init_loop (fuel : nat) (path : list P) (high i : nat) (dsq : list D)
    : option (list D) :=
    match fuel with
    | 0 => None
    | S f =>
        if i <? high then
          match refresh path dsq i (i - 1) (i + 1) with
          | None => None
          | Some dsq' => init_loop f path high (S i) dsq'
          end
        else Some dsq
    end.

  Definition init_dsq (path : list P) (isClosed : bool) : option (list D) :=
    let l := length path in
    let high := l - 1 in
    let dsq := repeat dmax l in
    match (if isClosed then
             match refresh path dsq 0 high 1 with
             | None => None
             | Some d1 => refresh path d1 high 0 (high - 1)
             end
           else
             match set_nth dsq 0 dmax with
             | None => None
             | Some d1 => set_nth d1 high dmax
             end) with
    | None => None
    | Some d2 => init_loop l path high 1 d2
    end.

  (* for { curr = getNext(curr, high, flags)
           if curr == start || dsq[curr] <= epsSq { break } } ; value of curr at exit *)
  Fixpoint scan (fuel : nat) (flags : list bool) (dsq : list D) (high start curr : nat)
    : option nat :=
    match fuel with
    | 0 => None
    | S f =>
        match getNext flags high curr with
        | None => None
        | Some c =>
            if c =? start then Some c
            else
              match nth_error dsq c with
              | None => None
              | Some d =>
                  if negb (gtb d eps2) then Some c
                  else scan f flags dsq high start c
              end
        end
    end.

  Inductive outcome : Type :=
  | Break
  | Continue (flags : list bool) (dsq : list D) (curr : nat).

  (* isClosedPath || (i != high && i != 0)   [resp. (i != 0 && i != high)] *)
  Definition guard (isClosed : bool) (high i : nat) : bool :=
    isClosed || (negb (i =? high) && negb (i =? 0)).

  (* first part of the body of the main loop: Some None = break *)
  Definition find_curr (flags : list bool) (dsq : list D) (high curr : nat)
    : option (option nat) :=
    match nth_error dsq curr with
    | None => None
    | Some d0 =>
        if gtb d0 eps2 then
          match scan (length flags + 1) flags dsq high curr curr with
          | None => None
          | Some c => if c =? curr then Some None else Some (Some c)
          end
        else Some (Some curr)
    end.

  (* one iteration of the main `for { ... }` loop *)
  Definition step (path : list P) (isClosed : bool) (high : nat)
             (flags : list bool) (dsq : list D) (curr : nat) : option outcome :=
    match find_curr flags dsq high curr with
    | None => None
    | Some None => Some Break
    | Some (Some curr) =>
        match getPrior flags high curr, getNext flags high curr with
        | Some prev, Some next =>
            if next =? prev then Some Break
            else
              match nth_error dsq next, nth_error dsq curr with
              | Some dn, Some dc =>
                  match (if ltb dn dc then
                           (* prior2 = prev; prev = curr; curr = next; next = getNext(next) *)
                           match getNext flags high next with
                           | Some n2 => Some (prev, curr, next, n2)
                           | None => None
                           end
                         else
                           (* prior2 = getPrior(prev) *)
                           match getPrior flags high prev with
                           | Some p2 => Some (p2, prev, curr, next)
                           | None => None
                           end) with
                  | None => None
                  | Some (prior2, prev, curr, next) =>
                      (* flags[curr] = true *)
                      match set_nth flags curr true with
                      | None => None
                      | Some flags' =>
                          (* curr = next; next = getNext(next) *)
                          let curr := next in
                          match getNext flags' high next with
                          | None => None
                          | Some next =>
                              match (if guard isClosed high curr
                                     then refresh path dsq curr prev next
                                     else Some dsq) with
                              | None => None
                              | Some dsq1 =>
                                  match (if guard isClosed high prev
                                         then refresh path dsq1 prev prior2 curr
                                         else Some dsq1) with
                                  | None => None
                                  | Some dsq2 => Some (Continue flags' dsq2 curr)
                                  end
                              end
                          end
                      end
                  end
              | _, _ => None
              end
        | _, _ => None
        end
    end.

  Fixpoint main_loop (fuel : nat) (path : list P) (isClosed : bool) (high : nat)
           (flags : list bool) (dsq : list D) (curr : nat) : option (list bool) :=
    match fuel with
    | 0 => None
    | S f =>
        match step path isClosed high flags dsq curr with
        | None => None
        | Some Break => Some flags
        | Some (Continue flags' dsq' curr') =>
            main_loop f path isClosed high flags' dsq' curr'
        end
    end.

  (* the final value of `flags` (all false when the early return is taken) *)
  Definition simplify_flags (path : list P) (isClosed : bool) : option (list bool) :=
    let l := length path in
    if l <? 4 then Some (repeat false l)
    else
      match init_dsq path isClosed with
      | None => None
      | Some dsq => main_loop (l + 1) path isClosed (l - 1) (repeat false l) dsq 0
      end.

  Definition simplify (path : list P) (isClosed : bool) : option (list P) :=
    if length path <? 4 then Some path
    else
      match simplify_flags path isClosed with
      | None => None
      | Some flags => Some (select flags path)
      end.
End Simplify.

Arguments Break {D}.
Arguments Continue {D} _ _ _.

(* ---------- exact rational instance ---------- *)

(* squared perpendicular distance of p from the line l1 l2, exactly *)
Definition perp_exact (p l1 l2 : pt) : Q :=
  let a := (px p - px l1)%Z in
  let b := (py p - py l1)%Z in
  let c := (px l2 - px l1)%Z in
  let d := (py l2 - py l1)%Z in
  if ((c =? 0) && (d =? 0))%Z then 0%Q
  else Qmake ((a * d - c * b) * (a * d - c * b))%Z (Z.to_pos (c * c + d * d)%Z).

(* math.MaxFloat64 = 2^1024 - 2^971 *)
Definition dmax_exact : Q := Qmake (2 ^ 1024 - 2 ^ 971)%Z 1.
Definition Qgtb (a b : Q) : bool := negb (Qle_bool a b).
Definition Qltb (a b : Q) : bool := negb (Qle_bool b a).

Definition simplify_exact_flags (eps2 : Q) (path : list pt) (isClosed : bool)
  : option (list bool) :=
  simplify_flags pt Q perp_exact dmax_exact Qgtb Qltb eps2 path isClosed.

Definition simplify_exact (eps2 : Q) (path : list pt) (isClosed : bool)
  : option (list pt) :=
  simplify pt Q perp_exact dmax_exact Qgtb Qltb eps2 path isClosed.

(* ---------- sanity checks ---------- *)
Open Scope Z_scope.

Example getNext_ex1 : getNext [false; true; true; false] 3 0 = Some 3%nat.
Proof. vm_compute. reflexivity. Qed.
Example getNext_ex2 : getNext [false; true; true; false] 3 3 = Some 0%nat.
Proof. vm_compute. reflexivity. Qed.
Example getNext_ex3 : getNext [true; true; false; true] 3 2 = Some 2%nat.
Proof. vm_compute. reflexivity. Qed.
Example getNext_ex4 : getNext [true; true; true] 2 0 = None.
Proof. vm_compute. reflexivity. Qed.
Example getPrior_ex1 : getPrior [false; true; true; false] 3 0 = Some 3%nat.
Proof. vm_compute. reflexivity. Qed.
Example getPrior_ex2 : getPrior [false; true; true; false] 3 3 = Some 0%nat.
Proof. vm_compute. reflexivity. Qed.
Example getPrior_ex3 : getPrior [true; true; false; true] 3 2 = Some 2%nat.
Proof. vm_compute. reflexivity. Qed.
Example getPrior_ex4 : getPrior [true; false; true; true] 3 0 = Some 1%nat.
Proof. vm_compute. reflexivity. Qed.

(* short paths are returned unchanged *)
Example simp_ex_short : simplify_exact (1#1) [(0,0); (5,1); (10,0)] true
                        = Some [(0,0); (5,1); (10,0)].
Proof. vm_compute. reflexivity. Qed.

(* the following expected values are the outputs of the Go function
   SimplifyPath64 (epsilon = sqrt eps2) on the same inputs *)
Example simp_ex1 :
  simplify_exact (9#1) [(3,-1); (-1,-1); (4,1); (5,-4); (6,-1); (4,-2); (-3,-5)] false
  = Some [(3,-1); (-1,-1); (4,1); (5,-4); (-3,-5)].
Proof. vm_compute. reflexivity. Qed.
Example simp_ex1_flags :
  simplify_exact_flags (9#1) [(3,-1); (-1,-1); (4,1); (5,-4); (6,-1); (4,-2); (-3,-5)] false
  = Some [false; false; false; false; true; true; false].
Proof. vm_compute. reflexivity. Qed.
Example simp_ex2 :
  simplify_exact (1#1) [(5,3); (4,3); (-2,-1); (1,0); (-5,-4); (-3,-2)] true
  = Some [(5,3); (-5,-4)].
Proof. vm_compute. reflexivity. Qed.
Example simp_ex3 :
  simplify_exact (0#1) [(2,-2); (-2,1); (-2,2); (-2,1); (-1,-2); (0,0); (-1,0); (0,2); (2,-3)] true
  = Some [(2,-2); (-2,1); (-1,-2); (0,0); (-1,0); (0,2); (2,-3)].
Proof. vm_compute. reflexivity. Qed.
Example simp_ex4 :
  simplify_exact (4#1) [(-2,0); (-2,-1); (1,-2); (2,1); (0,2); (0,-1); (1,1); (-1,2);
                        (2,-1); (-2,-1); (-1,1)] true
  = Some [(0,2); (0,-1)].
Proof. vm_compute. reflexivity. Qed.
Example simp_ex5 :
  simplify_exact (9#4) [(4,3); (-4,-1); (2,0); (2,-1); (-1,-4); (1,2); (2,-1); (-2,0); (0,4)] false
  = Some [(4,3); (-4,-1); (2,0); (-1,-4); (1,2); (2,-1); (-2,0); (0,4)].
Proof. vm_compute. reflexivity. Qed.
Example simp_ex6 :
  simplify_exact (0#1) [(3,-4); (-2,-1); (0,4); (3,5)] true
  = Some [(3,-4); (-2,-1); (0,4); (3,5)].
Proof. vm_compute. reflexivity. Qed.
