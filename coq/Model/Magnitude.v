(* Model/Magnitude.v — how the int64 cross/dot products, isCollinear and the
   Area64 accumulator depend on the MAGNITUDE of their inputs.

     1. cross64 / dot64 are the exact values reduced mod 2^64 (no hypothesis).
     2. cross64 is exact iff the exact value fits in int64.
     3. Translation by an int64 vector (wrapping add) changes nothing at all,
        with no range hypothesis: the shift cancels inside each sub64.
     4. The exact specification is translation invariant.
     5. The exact shoelace sum of a closed path, hence the wrapped Area64
        accumulator, is translation invariant.
     6. Scaling multiplies the exact value by k^2, and the int64 value is
        refuted inside the advertised coordinate range.
     7. The exact range of the cross product, and exactness from bounds on
        the coordinate DIFFERENCES only. *)
From Coq Require Import ZArith Lia List Bool.
From Clip Require Import Base.Int64 Model.Arith Model.ArithProofs
     Model.Measures Model.MeasuresProofs Base.GeomLemmas.
Import ListNotations.
Local Open Scope Z_scope.

(* ------------------------------------------------------------------ *)
(* 1. int64 arithmetic is a ring homomorphism mod 2^64                 *)
(* ------------------------------------------------------------------ *)

Lemma wrap64_mul_both a b : wrap64 (wrap64 a * wrap64 b) = wrap64 (a * b).
Proof. rewrite wrap64_mul_l, wrap64_mul_r. reflexivity. Qed.

Lemma wrap64_sub_both a b : wrap64 (wrap64 a - wrap64 b) = wrap64 (a - b).
Proof. rewrite wrap64_sub_l, wrap64_sub_r. reflexivity. Qed.

Lemma wrap64_add_both a b : wrap64 (wrap64 a + wrap64 b) = wrap64 (a + b).
Proof. rewrite wrap64_add_l, wrap64_add_r. reflexivity. Qed.

Theorem cross64_wrap : forall p1 p2 p3,
  cross64 p1 p2 p3 = wrap64 (cross_exact p1 p2 p3).
Proof.
  intros p1 p2 p3. unfold cross64, cross_exact, sub64, mul64.
  rewrite !wrap64_mul_both, wrap64_sub_both. reflexivity.
Qed.

Theorem dot64_wrap : forall p1 p2 p3,
  dot64 p1 p2 p3 = wrap64 (dot_exact p1 p2 p3).
Proof.
  intros p1 p2 p3. unfold dot64, dot_exact, add64, sub64, mul64.
  rewrite !wrap64_mul_both, wrap64_add_both. reflexivity.
Qed.

(* ------------------------------------------------------------------ *)
(* 2. exactness is precisely "the exact value fits"                    *)
(* ------------------------------------------------------------------ *)

Theorem cross64_exact_iff : forall p1 p2 p3,
  (cross64 p1 p2 p3 = cross_exact p1 p2 p3 <-> in64 (cross_exact p1 p2 p3)).
Proof.
  intros p1 p2 p3. rewrite cross64_wrap. split.
  - intros Heq. rewrite <- Heq. apply wrap64_range.
  - intros Hin. apply wrap64_id. exact Hin.
Qed.

Theorem dot64_exact_iff : forall p1 p2 p3,
  (dot64 p1 p2 p3 = dot_exact p1 p2 p3 <-> in64 (dot_exact p1 p2 p3)).
Proof.
  intros p1 p2 p3. rewrite dot64_wrap. split.
  - intros Heq. rewrite <- Heq. apply wrap64_range.
  - intros Hin. apply wrap64_id. exact Hin.
Qed.

(* ------------------------------------------------------------------ *)
(* 3. translation by an int64 vector, wrapping, no range hypothesis    *)
(* ------------------------------------------------------------------ *)

Definition shift64 (v p : pt) : pt := (add64 (px p) (px v), add64 (py p) (py v)).

Lemma sub64_add64_cancel a b c : sub64 (add64 a c) (add64 b c) = sub64 a b.
Proof.
  unfold sub64, add64. rewrite wrap64_sub_both. f_equal. lia.
Qed.

Lemma shift64_px v p : px (shift64 v p) = add64 (px p) (px v).
Proof. reflexivity. Qed.

Lemma shift64_py v p : py (shift64 v p) = add64 (py p) (py v).
Proof. reflexivity. Qed.

Theorem cross64_translate : forall v p1 p2 p3,
  cross64 (shift64 v p1) (shift64 v p2) (shift64 v p3) = cross64 p1 p2 p3.
Proof.
  intros v p1 p2 p3. unfold cross64.
  rewrite !shift64_px, !shift64_py, !sub64_add64_cancel. reflexivity.
Qed.

Theorem dot64_translate : forall v p1 p2 p3,
  dot64 (shift64 v p1) (shift64 v p2) (shift64 v p3) = dot64 p1 p2 p3.
Proof.
  intros v p1 p2 p3. unfold dot64.
  rewrite !shift64_px, !shift64_py, !sub64_add64_cancel. reflexivity.
Qed.

Theorem isCollinear_translate : forall v p1 p2 p3,
  isCollinear (shift64 v p1) (shift64 v p2) (shift64 v p3) = isCollinear p1 p2 p3.
Proof.
  intros v p1 p2 p3. unfold isCollinear.
  rewrite !shift64_px, !shift64_py, !sub64_add64_cancel. reflexivity.
Qed.

Corollary CrossProduct_translate : forall v p1 p2 p3,
  CrossProduct (shift64 v p1) (shift64 v p2) (shift64 v p3) = CrossProduct p1 p2 p3.
Proof.
  intros v p1 p2 p3. unfold CrossProduct. rewrite cross64_translate. reflexivity.
Qed.

(* ------------------------------------------------------------------ *)
(* 4. the exact specification is translation invariant                 *)
(* ------------------------------------------------------------------ *)

Theorem cross_exact_translate : forall d p1 p2 p3,
  cross_exact (shift_pt d p1) (shift_pt d p2) (shift_pt d p3) = cross_exact p1 p2 p3.
Proof.
  intros [dx dy] [x1 y1] [x2 y2] [x3 y3].
  unfold cross_exact, shift_pt, px, py. cbn [fst snd]. ring.
Qed.

Theorem dot_exact_translate : forall d p1 p2 p3,
  dot_exact (shift_pt d p1) (shift_pt d p2) (shift_pt d p3) = dot_exact p1 p2 p3.
Proof.
  intros [dx dy] [x1 y1] [x2 y2] [x3 y3].
  unfold dot_exact, shift_pt, px, py. cbn [fst snd]. ring.
Qed.

(* ------------------------------------------------------------------ *)
(* 5. area under translation                                           *)
(* ------------------------------------------------------------------ *)

Lemma last_cons_cons : forall (l : path) (p d : pt), last (p :: l) d = last l p.
Proof.
  induction l as [|q l IH]; intros p d.
  - reflexivity.
  - change (last (p :: q :: l) d) with (last (q :: l) d).
    rewrite (IH q d), (IH q p). reflexivity.
Qed.

Lemma last_map_shift : forall d (l : path) (e : pt),
  last (map (shift_pt d) l) (shift_pt d e) = shift_pt d (last l e).
Proof.
  intros d. induction l as [|q l IH]; intros e.
  - reflexivity.
  - cbn [map]. rewrite !last_cons_cons. apply IH.
Qed.

(* the shifted loop differs from the original by the offset c of the
   accumulators plus 2*dy times the telescoped sum of the x-differences *)
Lemma shoelace_loop_shift : forall d l prev a c,
  shoelace_loop (shift_pt d prev) (map (shift_pt d) l) (a + c)
  = shoelace_loop prev l a + c + 2 * py d * (px prev - px (last l prev)).
Proof.
  intros d. induction l as [|p tl IH]; intros prev a c.
  - cbn [map shoelace_loop last]. ring.
  - cbn [map shoelace_loop]. rewrite last_cons_cons.
    replace (a + c + (py (shift_pt d prev) + py (shift_pt d p))
                     * (px (shift_pt d prev) - px (shift_pt d p)))
      with ((a + (py prev + py p) * (px prev - px p))
            + (c + 2 * py d * (px prev - px p)))
      by (destruct d as [dx dy], prev as [xq yq], p as [xp yp];
          unfold shift_pt, px, py; cbn [fst snd]; ring).
    rewrite IH. ring.
Qed.

Theorem shoelace2_translate : forall d p, shoelace2 (shift_path d p) = shoelace2 p.
Proof.
  intros d p. unfold shoelace2, shift_path. rewrite map_length.
  destruct (length p <? 3)%nat eqn:Hlen; [reflexivity|].
  destruct p as [|q tl]; [discriminate Hlen|].
  assert (Hlast : last (map (shift_pt d) (q :: tl)) (0, 0)
                  = shift_pt d (last (q :: tl) (0, 0))).
  { cbn [map]. rewrite !last_cons_cons.
    rewrite <- (last_map_shift d tl q). reflexivity. }
  rewrite Hlast.
  set (e := last (q :: tl) (0, 0)).
  assert (He : last (q :: tl) e = e).
  { unfold e. rewrite !last_cons_cons. reflexivity. }
  pose proof (shoelace_loop_shift d (q :: tl) e 0 0) as Hs.
  change (0 + 0) with 0 in Hs. rewrite Hs, He. ring.
Qed.

Theorem area2_translate : forall d p, area2_model (shift_path d p) = area2_model p.
Proof.
  intros d p. rewrite !area_wrap_any, shoelace2_translate. reflexivity.
Qed.

(* ------------------------------------------------------------------ *)
(* 6. scaling                                                          *)
(* ------------------------------------------------------------------ *)

Theorem cross_exact_scale : forall k p1 p2 p3,
  cross_exact (k * px p1, k * py p1) (k * px p2, k * py p2) (k * px p3, k * py p3)
  = k * k * cross_exact p1 p2 p3.
Proof.
  intros k [x1 y1] [x2 y2] [x3 y3].
  unfold cross_exact, px, py. cbn [fst snd]. ring.
Qed.

(* k = 2^32 and the unit right turn (0,0),(1,0),(1,1): all scaled coordinates
   are at most 2^32, far inside 2^61, the exact cross product is 1, the scaled
   one is 2^64, which wraps to 0 *)
Theorem cross64_scale_refuted : exists k p1 p2 p3,
  coord_ok (2^61) (k * px p1, k * py p1) /\
  coord_ok (2^61) (k * px p2, k * py p2) /\
  coord_ok (2^61) (k * px p3, k * py p3) /\
  Z.sgn (cross64 (k * px p1, k * py p1) (k * px p2, k * py p2) (k * px p3, k * py p3))
  <> Z.sgn (cross_exact p1 p2 p3).
Proof.
  exists (2^32), (0, 0), (1, 0), (1, 1).
  unfold coord_ok. repeat split; vm_compute; discriminate.
Qed.

(* ------------------------------------------------------------------ *)
(* 7. the exact range of the cross product                             *)
(* ------------------------------------------------------------------ *)

Theorem cross_exact_bound : forall B p1 p2 p3,
  0 <= B -> coord_ok B p1 -> coord_ok B p2 -> coord_ok B p3 ->
  Z.abs (cross_exact p1 p2 p3) <= 8 * B * B.
Proof.
  intros B [x1 y1] [x2 y2] [x3 y3] HB [H1x H1y] [H2x H2y] [H3x H3y].
  unfold cross_exact, px, py in *. cbn [fst snd] in *.
  assert (Ha : Z.abs (x2 - x1) <= 2 * B) by lia.
  assert (Hb : Z.abs (y3 - y2) <= 2 * B) by lia.
  assert (Hc : Z.abs (y2 - y1) <= 2 * B) by lia.
  assert (Hd : Z.abs (x3 - x2) <= 2 * B) by lia.
  set (a := x2 - x1) in *. set (b := y3 - y2) in *.
  set (c := y2 - y1) in *. set (d := x3 - x2) in *.
  clearbody a b c d.
  pose proof (mul_abs_bound a b _ Ha Hb) as Hab.
  pose proof (mul_abs_bound c d _ Hc Hd) as Hcd.
  replace (2 * B * (2 * B)) with (4 * (B * B)) in Hab, Hcd by ring.
  replace (8 * B * B) with (8 * (B * B)) by ring.
  set (ab := a * b) in *. set (cd := c * d) in *. set (BB := B * B) in *.
  clearbody ab cd BB. lia.
Qed.

(* 8*B*B is what bounding the four differences separately gives, but the
   differences are not independent (x2-x1 and x3-x2 sum to x3-x1): the cross
   product is y1*(x3-x2) + y2*(x1-x3) + y3*(x2-x1) and the three x-differences
   have total absolute value 2*(max - min) <= 4*B.  So the exact range is
   4*B*B (twice the area of the largest triangle in the square), attained. *)
Theorem cross_exact_bound4 : forall B p1 p2 p3,
  0 <= B -> coord_ok B p1 -> coord_ok B p2 -> coord_ok B p3 ->
  Z.abs (cross_exact p1 p2 p3) <= 4 * B * B.
Proof.
  intros B [x1 y1] [x2 y2] [x3 y3] HB [H1x H1y] [H2x H2y] [H3x H3y].
  unfold cross_exact, px, py in *. cbn [fst snd] in *.
  replace ((x2 - x1) * (y3 - y2) - (y2 - y1) * (x3 - x2))
    with (y1 * (x3 - x2) + y2 * (x1 - x3) + y3 * (x2 - x1)) by ring.
  assert (HS : Z.abs (x3 - x2) + Z.abs (x1 - x3) + Z.abs (x2 - x1) <= 4 * B) by lia.
  set (P := x3 - x2) in *. set (Q := x1 - x3) in *. set (R := x2 - x1) in *.
  clearbody P Q R.
  assert (HP : Z.abs (y1 * P) <= B * Z.abs P).
  { rewrite Z.abs_mul. apply Z.mul_le_mono_nonneg_r; lia. }
  assert (HQ : Z.abs (y2 * Q) <= B * Z.abs Q).
  { rewrite Z.abs_mul. apply Z.mul_le_mono_nonneg_r; lia. }
  assert (HR : Z.abs (y3 * R) <= B * Z.abs R).
  { rewrite Z.abs_mul. apply Z.mul_le_mono_nonneg_r; lia. }
  assert (HT : B * (Z.abs P + Z.abs Q + Z.abs R) <= B * (4 * B)).
  { apply Z.mul_le_mono_nonneg_l; lia. }
  rewrite !Z.mul_add_distr_l in HT.
  replace (4 * B * B) with (B * (4 * B)) by ring.
  set (yP := y1 * P) in *. set (yQ := y2 * Q) in *. set (yR := y3 * R) in *.
  set (bP := B * Z.abs P) in *. set (bQ := B * Z.abs Q) in *.
  set (bR := B * Z.abs R) in *. set (BB := B * (4 * B)) in *.
  clearbody yP yQ yR bP bQ bR BB. lia.
Qed.

Theorem cross_exact_bound4_tight : forall B, 0 <= B ->
  exists p1 p2 p3, coord_ok B p1 /\ coord_ok B p2 /\ coord_ok B p3 /\
                   cross_exact p1 p2 p3 = 4 * B * B.
Proof.
  intros B HB. exists (- B, - B), (B, - B), (B, B).
  unfold coord_ok, cross_exact, px, py. cbn [fst snd].
  repeat split; first [lia | ring].
Qed.

(* hence cross64 is exact on the whole square of half-side B as soon as
   4*B*B < 2^63, although the two int64 products may individually be as
   large as 4*B*B each and their difference is formed by a wrapping sub64 *)
Theorem cross64_exact_bound4 : forall B p1 p2 p3,
  0 <= B -> 4 * B * B < two63 ->
  coord_ok B p1 -> coord_ok B p2 -> coord_ok B p3 ->
  cross64 p1 p2 p3 = cross_exact p1 p2 p3.
Proof.
  intros B p1 p2 p3 HB Hlt H1 H2 H3.
  apply cross64_exact_iff. unfold in64.
  pose proof (cross_exact_bound4 B p1 p2 p3 HB H1 H2 H3) as Hb.
  set (c := cross_exact p1 p2 p3) in *. set (BB := 4 * B * B) in *.
  clearbody c BB. lia.
Qed.

Corollary cross64_exact_2p30 : forall p1 p2 p3,
  coord_ok (2^30) p1 -> coord_ok (2^30) p2 -> coord_ok (2^30) p3 ->
  cross64 p1 p2 p3 = cross_exact p1 p2 p3.
Proof.
  intros p1 p2 p3. apply cross64_exact_bound4; vm_compute; [discriminate|reflexivity].
Qed.

(* the threshold is exact: 1518500249 = floor (2^30.5) is the largest B with
   4*B*B < 2^63, and at B + 1 the sign is wrong *)
Corollary cross64_exact_max : forall p1 p2 p3,
  coord_ok 1518500249 p1 -> coord_ok 1518500249 p2 -> coord_ok 1518500249 p3 ->
  cross64 p1 p2 p3 = cross_exact p1 p2 p3.
Proof.
  intros p1 p2 p3. apply cross64_exact_bound4; vm_compute; [discriminate|reflexivity].
Qed.

Theorem cross64_refuted_above_max : exists p1 p2 p3,
  coord_ok 1518500250 p1 /\ coord_ok 1518500250 p2 /\ coord_ok 1518500250 p3 /\
  Z.sgn (cross64 p1 p2 p3) <> Z.sgn (cross_exact p1 p2 p3).
Proof.
  exists (- 1518500250, - 1518500250), (1518500250, - 1518500250),
         (1518500250, 1518500250).
  unfold coord_ok. repeat split; vm_compute; discriminate.
Qed.

(* exactness depends on the DIFFERENCES only: this is why translation is
   harmless and scaling is not *)
Theorem cross64_exact_diff : forall D p1 p2 p3,
  0 <= D ->
  Z.abs (px p2 - px p1) <= D -> Z.abs (py p3 - py p2) <= D ->
  Z.abs (py p2 - py p1) <= D -> Z.abs (px p3 - px p2) <= D ->
  2 * D * D < two63 ->
  cross64 p1 p2 p3 = cross_exact p1 p2 p3.
Proof.
  intros D p1 p2 p3 HD Ha Hb Hc Hd Hlt.
  apply cross64_exact_iff. unfold in64, cross_exact.
  set (a := px p2 - px p1) in *. set (b := py p3 - py p2) in *.
  set (c := py p2 - py p1) in *. set (d := px p3 - px p2) in *.
  clearbody a b c d.
  pose proof (mul_abs_bound a b _ Ha Hb) as Hab.
  pose proof (mul_abs_bound c d _ Hc Hd) as Hcd.
  replace (2 * D * D) with (2 * (D * D)) in Hlt by ring.
  set (ab := a * b) in *. set (cd := c * d) in *. set (DD := D * D) in *.
  clearbody ab cd DD. lia.
Qed.

Print Assumptions cross64_wrap.
Print Assumptions dot64_wrap.
Print Assumptions cross64_exact_iff.
Print Assumptions dot64_exact_iff.
Print Assumptions cross64_translate.
Print Assumptions dot64_translate.
Print Assumptions isCollinear_translate.
Print Assumptions CrossProduct_translate.
Print Assumptions cross_exact_translate.
Print Assumptions dot_exact_translate.
Print Assumptions shoelace2_translate.
Print Assumptions area2_translate.
Print Assumptions cross_exact_scale.
Print Assumptions cross64_scale_refuted.
Print Assumptions cross_exact_bound.
Print Assumptions cross_exact_bound4.
Print Assumptions cross_exact_bound4_tight.
Print Assumptions cross64_exact_bound4.
Print Assumptions cross64_exact_2p30.
Print Assumptions cross64_exact_max.
Print Assumptions cross64_refuted_above_max.
Print Assumptions cross64_exact_diff.
