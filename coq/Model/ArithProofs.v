From Coq Require Import ZArith Lia List Bool.
From Clip Require Import Base.Int64 Model.Arith.
Open Scope Z_scope.

(* ------------------------------------------------------------------ *)
(* 1. multiplyUInt64 is the exact 64x64 -> 128 bit product             *)
(* ------------------------------------------------------------------ *)

Lemma mask32_ones : mask32 = Z.ones 32.
Proof. reflexivity. Qed.

Lemma land_mask32 x : Z.land x mask32 = x mod two32.
Proof. rewrite mask32_ones, Z.land_ones by lia. change (2 ^ 32) with two32. reflexivity. Qed.

Lemma shiftr32 x : Z.shiftr x 32 = x / two32.
Proof. rewrite Z.shiftr_div_pow2 by lia. change (2 ^ 32) with two32. reflexivity. Qed.

Lemma shiftl32 x : Z.shiftl x 32 = x * two32.
Proof. rewrite Z.shiftl_mul_pow2 by lia. change (2 ^ 32) with two32. reflexivity. Qed.

Lemma lor_disjoint x y : 0 <= x < two32 -> Z.lor (y * two32) x = y * two32 + x.
Proof.
  intros Hx. rewrite <- shiftl32. symmetry.
  assert (Hl : Z.land (Z.shiftl y 32) x = 0).
  { apply Z.bits_inj'. intros n Hn. rewrite Z.land_spec, Z.bits_0.
    destruct (Z.lt_ge_cases n 32) as [Hlt|Hge].
    - rewrite Z.shiftl_spec_low by lia. reflexivity.
    - replace x with (x mod 2 ^ 32)
        by (apply Z.mod_small; change (2 ^ 32) with two32; lia).
      rewrite Z.mod_pow2_bits_high by lia. apply andb_false_r. }
  rewrite Z.add_nocarry_lxor by exact Hl. apply Z.lxor_lor. exact Hl.
Qed.

Lemma u64_small x : 0 <= x < two64 -> u64 x = x.
Proof. intros H. unfold u64. apply Z.mod_small. exact H. Qed.

Lemma mul_bound32 x y :
  0 <= x < two32 -> 0 <= y < two32 -> 0 <= x * y <= (two32 - 1) * (two32 - 1).
Proof.
  intros Hx Hy. split.
  - apply Z.mul_nonneg_nonneg; lia.
  - apply Z.mul_le_mono_nonneg; lia.
Qed.

Lemma divmod32 x :
  0 <= x -> x = two32 * (x / two32) + x mod two32 /\
            0 <= x mod two32 < two32 /\ 0 <= x / two32.
Proof.
  intros Hx. split; [|split].
  - apply Z.div_mod. unfold two32. lia.
  - apply Z.mod_pos_bound. unfold two32. lia.
  - apply Z.div_pos; unfold two32; lia.
Qed.

Theorem multiply_exact : forall a b, inu64 a -> inu64 b ->
  let r := multiplyUInt64 a b in
  inu64 (fst r) /\ inu64 (snd r) /\ snd r * two64 + fst r = a * b.
Proof.
  intros a b Ha Hb r. subst r. unfold multiplyUInt64. cbv zeta. cbn [fst snd].
  unfold uadd64, umul64.
  rewrite !land_mask32, !shiftr32, !shiftl32.
  unfold inu64 in Ha, Hb.
  destruct (divmod32 a ltac:(lia)) as (Ea & Hal & Hah).
  destruct (divmod32 b ltac:(lia)) as (Eb & Hbl & Hbh).
  set (al := a mod two32) in *. set (ah := a / two32) in *.
  set (bl := b mod two32) in *. set (bh := b / two32) in *.
  assert (Hah' : ah < two32) by (unfold two32, two64 in *; lia).
  assert (Hbh' : bh < two32) by (unfold two32, two64 in *; lia).
  assert (Eab : a * b = two64 * (ah * bh) + two32 * (ah * bl + al * bh) + al * bl).
  { rewrite Ea, Eb. unfold two64, two32. ring. }
  pose proof (mul_bound32 al bl ltac:(lia) ltac:(lia)) as B1.
  pose proof (mul_bound32 ah bl ltac:(lia) ltac:(lia)) as B2.
  pose proof (mul_bound32 al bh ltac:(lia) ltac:(lia)) as B3.
  pose proof (mul_bound32 ah bh ltac:(lia) ltac:(lia)) as B4.
  set (p1 := al * bl) in *. set (p2 := ah * bl) in *.
  set (p3 := al * bh) in *. set (p4 := ah * bh) in *.
  clearbody p1 p2 p3 p4. clear Ea Eb. clearbody al ah bl bh.
  rewrite (u64_small p1) by (unfold two32, two64 in *; lia).
  rewrite (u64_small p2) by (unfold two32, two64 in *; lia).
  rewrite (u64_small p3) by (unfold two32, two64 in *; lia).
  rewrite (u64_small p4) by (unfold two32, two64 in *; lia).
  destruct (divmod32 p1 ltac:(lia)) as (E1 & H1l & H1h).
  set (x1l := p1 mod two32) in *. set (x1h := p1 / two32) in *.
  clearbody x1l x1h.
  rewrite (u64_small (p2 + x1h)) by (unfold two32, two64 in *; lia).
  destruct (divmod32 (p2 + x1h) ltac:(lia)) as (E2 & H2l & H2h).
  set (x2l := (p2 + x1h) mod two32) in *. set (x2h := (p2 + x1h) / two32) in *.
  clearbody x2l x2h.
  rewrite (u64_small (p3 + x2l)) by (unfold two32, two64 in *; lia).
  destruct (divmod32 (p3 + x2l) ltac:(lia)) as (E3 & H3l & H3h).
  set (x3l := (p3 + x2l) mod two32) in *. set (x3h := (p3 + x2l) / two32) in *.
  clearbody x3l x3h.
  rewrite (u64_small (x3l * two32)) by (unfold two32, two64 in *; lia).
  rewrite lor_disjoint by lia.
  rewrite (u64_small (p4 + x2h)) by (unfold two32, two64 in *; lia).
  rewrite (u64_small (p4 + x2h + x3h)) by (unfold two32, two64 in *; lia).
  unfold inu64. unfold two32, two64 in *. lia.
Qed.

(* ------------------------------------------------------------------ *)
(* 2. triSign                                                          *)
(* ------------------------------------------------------------------ *)

Lemma triSign_spec : forall x, triSign x = if x =? 1 then 0 else Z.sgn x.
Proof. intros x. destruct x as [|[p|p|]|p]; reflexivity. Qed.

Lemma triSign_not1 x : x <> 1 -> triSign x = Z.sgn x.
Proof.
  intros H. rewrite triSign_spec. destruct (Z.eqb_spec x 1); [contradiction|reflexivity].
Qed.

(* ------------------------------------------------------------------ *)
(* 3. productsAreEqual is exact below 2^53, unless an argument is 1    *)
(* ------------------------------------------------------------------ *)

Lemma sgn_abs_prod a b : a * b = (Z.sgn a * Z.sgn b) * (Z.abs a * Z.abs b).
Proof.
  transitivity ((Z.abs a * Z.sgn a) * (Z.abs b * Z.sgn b)).
  - rewrite !Z.abs_sgn. reflexivity.
  - ring.
Qed.

Lemma abs53_inu64 x : Z.abs x < two53 -> inu64 (Z.abs x).
Proof. intros H. unfold inu64. unfold two53, two64 in *. lia. Qed.

Theorem products_equal_exact_partial : forall a b c d,
  Z.abs a < two53 -> Z.abs b < two53 -> Z.abs c < two53 -> Z.abs d < two53 ->
  a <> 1 -> b <> 1 -> c <> 1 -> d <> 1 ->
  (productsAreEqual a b c d = true <-> a * b = c * d).
Proof.
  intros a b c d Ha Hb Hc Hd Na Nb Nc Nd. unfold productsAreEqual. cbv zeta.
  rewrite !absf_u64_small by assumption.
  rewrite (triSign_not1 a Na), (triSign_not1 b Nb), (triSign_not1 c Nc), (triSign_not1 d Nd).
  pose proof (multiply_exact (Z.abs a) (Z.abs b)
                (abs53_inu64 a Ha) (abs53_inu64 b Hb)) as M1.
  pose proof (multiply_exact (Z.abs c) (Z.abs d)
                (abs53_inu64 c Hc) (abs53_inu64 d Hd)) as M2.
  cbv zeta in M1, M2.
  destruct M1 as (L1 & U1 & E1). destruct M2 as (L2 & U2 & E2).
  set (m1 := multiplyUInt64 (Z.abs a) (Z.abs b)) in *.
  set (m2 := multiplyUInt64 (Z.abs c) (Z.abs d)) in *.
  clearbody m1 m2.
  rewrite !andb_true_iff, !Z.eqb_eq.
  split.
  - intros [[El Eh] Es].
    rewrite (sgn_abs_prod a b), (sgn_abs_prod c d), Es, <- E1, <- E2, El, Eh.
    reflexivity.
  - intros E.
    assert (EA : Z.abs a * Z.abs b = Z.abs c * Z.abs d).
    { rewrite <- !Z.abs_mul, E. reflexivity. }
    assert (ES : Z.sgn a * Z.sgn b = Z.sgn c * Z.sgn d).
    { rewrite <- !Z.sgn_mul, E. reflexivity. }
    rewrite <- EA in E2. rewrite <- E2 in E1.
    unfold inu64 in *. unfold two64 in *.
    repeat split; [lia | lia | exact ES].
Qed.

(* ------------------------------------------------------------------ *)
(* 4. cross64 / dot64 do not overflow for |coord| <= 2^29              *)
(* ------------------------------------------------------------------ *)

Lemma mul_abs_bound x y B :
  Z.abs x <= B -> Z.abs y <= B -> Z.abs (x * y) <= B * B.
Proof.
  intros Hx Hy. rewrite Z.abs_mul.
  apply Z.mul_le_mono_nonneg; try lia.
Qed.

Lemma wrap64_id_abs z : Z.abs z < two63 -> wrap64 z = z.
Proof. intros H. apply wrap64_id. unfold in64. lia. Qed.

Theorem cross64_exact : forall p1 p2 p3,
  coord_ok two29 p1 -> coord_ok two29 p2 -> coord_ok two29 p3 ->
  cross64 p1 p2 p3 = cross_exact p1 p2 p3.
Proof.
  intros [x1 y1] [x2 y2] [x3 y3] [H1x H1y] [H2x H2y] [H3x H3y].
  unfold cross64, cross_exact, sub64, mul64, px, py in *. cbn [fst snd] in *.
  assert (Ha : Z.abs (x2 - x1) <= 2 * two29) by lia.
  assert (Hb : Z.abs (y3 - y2) <= 2 * two29) by lia.
  assert (Hc : Z.abs (y2 - y1) <= 2 * two29) by lia.
  assert (Hd : Z.abs (x3 - x2) <= 2 * two29) by lia.
  set (a := x2 - x1) in *. set (b := y3 - y2) in *.
  set (c := y2 - y1) in *. set (d := x3 - x2) in *.
  clearbody a b c d.
  rewrite (wrap64_id_abs a), (wrap64_id_abs b), (wrap64_id_abs c), (wrap64_id_abs d)
    by (unfold two29, two63 in *; lia).
  pose proof (mul_abs_bound a b _ Ha Hb) as Hab.
  pose proof (mul_abs_bound c d _ Hc Hd) as Hcd.
  set (ab := a * b) in *. set (cd := c * d) in *. clearbody ab cd.
  rewrite (wrap64_id_abs ab), (wrap64_id_abs cd) by (unfold two29, two63 in *; lia).
  apply wrap64_id_abs. unfold two29, two63 in *. lia.
Qed.

Theorem dot64_exact : forall p1 p2 p3,
  coord_ok two29 p1 -> coord_ok two29 p2 -> coord_ok two29 p3 ->
  dot64 p1 p2 p3 = dot_exact p1 p2 p3.
Proof.
  intros [x1 y1] [x2 y2] [x3 y3] [H1x H1y] [H2x H2y] [H3x H3y].
  unfold dot64, dot_exact, add64, sub64, mul64, px, py in *. cbn [fst snd] in *.
  assert (Ha : Z.abs (x2 - x1) <= 2 * two29) by lia.
  assert (Hb : Z.abs (x3 - x2) <= 2 * two29) by lia.
  assert (Hc : Z.abs (y2 - y1) <= 2 * two29) by lia.
  assert (Hd : Z.abs (y3 - y2) <= 2 * two29) by lia.
  set (a := x2 - x1) in *. set (b := x3 - x2) in *.
  set (c := y2 - y1) in *. set (d := y3 - y2) in *.
  clearbody a b c d.
  rewrite (wrap64_id_abs a), (wrap64_id_abs b), (wrap64_id_abs c), (wrap64_id_abs d)
    by (unfold two29, two63 in *; lia).
  pose proof (mul_abs_bound a b _ Ha Hb) as Hab.
  pose proof (mul_abs_bound c d _ Hc Hd) as Hcd.
  set (ab := a * b) in *. set (cd := c * d) in *. clearbody ab cd.
  rewrite (wrap64_id_abs ab), (wrap64_id_abs cd) by (unfold two29, two63 in *; lia).
  apply wrap64_id_abs. unfold two29, two63 in *. lia.
Qed.

(* ------------------------------------------------------------------ *)
(* 5. isCollinear is exact for |coord| <= 2^29, unless a difference is 1 *)
(* ------------------------------------------------------------------ *)

Theorem collinear_exact_partial : forall p1 p2 p3,
  coord_ok two29 p1 -> coord_ok two29 p2 -> coord_ok two29 p3 ->
  px p2 - px p1 <> 1 -> py p3 - py p2 <> 1 ->
  py p2 - py p1 <> 1 -> px p3 - px p2 <> 1 ->
  (isCollinear p1 p2 p3 = true <-> cross_exact p1 p2 p3 = 0).
Proof.
  intros [x1 y1] [x2 y2] [x3 y3] [H1x H1y] [H2x H2y] [H3x H3y].
  unfold isCollinear, cross_exact, sub64, px, py in *. cbn [fst snd] in *.
  cbv zeta.
  assert (Ha : Z.abs (x2 - x1) <= 2 * two29) by lia.
  assert (Hb : Z.abs (y3 - y2) <= 2 * two29) by lia.
  assert (Hc : Z.abs (y2 - y1) <= 2 * two29) by lia.
  assert (Hd : Z.abs (x3 - x2) <= 2 * two29) by lia.
  set (a := x2 - x1) in *. set (b := y3 - y2) in *.
  set (c := y2 - y1) in *. set (d := x3 - x2) in *.
  clearbody a b c d. clear H1x H1y H2x H2y H3x H3y.
  intros Na Nb Nc Nd.
  rewrite (wrap64_id_abs a), (wrap64_id_abs b), (wrap64_id_abs c), (wrap64_id_abs d)
    by (unfold two29, two63 in *; lia).
  rewrite products_equal_exact_partial
    by (first [assumption | unfold two29, two53 in *; lia]).
  lia.
Qed.

Theorem collinear_wrong_only_if_unit_diff : forall p1 p2 p3,
  coord_ok two29 p1 -> coord_ok two29 p2 -> coord_ok two29 p3 ->
  (isCollinear p1 p2 p3 = true <-> cross_exact p1 p2 p3 = 0) \/
  (px p2 - px p1 = 1 \/ py p3 - py p2 = 1 \/ py p2 - py p1 = 1 \/ px p3 - px p2 = 1).
Proof.
  intros p1 p2 p3 H1 H2 H3.
  destruct (Z.eq_dec (px p2 - px p1) 1) as [Ea|Na]; [right; tauto|].
  destruct (Z.eq_dec (py p3 - py p2) 1) as [Eb|Nb]; [right; tauto|].
  destruct (Z.eq_dec (py p2 - py p1) 1) as [Ec|Nc]; [right; tauto|].
  destruct (Z.eq_dec (px p3 - px p2) 1) as [Ed|Nd]; [right; tauto|].
  left. apply collinear_exact_partial; assumption.
Qed.

(* the unit-difference defect is real, in both directions *)
Theorem collinear_refuted_false_positive : exists p1 p2 p3,
  coord_ok two29 p1 /\ coord_ok two29 p2 /\ coord_ok two29 p3 /\
  isCollinear p1 p2 p3 = true /\ cross_exact p1 p2 p3 <> 0.
Proof.
  exists (0, 0), (1, 1), (-1, 3).
  unfold coord_ok.
  repeat split; try (vm_compute; intro Hc; discriminate Hc); try (vm_compute; reflexivity).
Qed.

Theorem collinear_refuted_false_negative : exists p1 p2 p3,
  coord_ok two29 p1 /\ coord_ok two29 p2 /\ coord_ok two29 p3 /\
  isCollinear p1 p2 p3 = false /\ cross_exact p1 p2 p3 = 0.
Proof.
  exists (0, 0), (1, 2), (3, 6).
  unfold coord_ok.
  repeat split; try (vm_compute; intro Hc; discriminate Hc); try (vm_compute; reflexivity).
Qed.

(* ------------------------------------------------------------------ *)
(* 6. round53: sign, zero, monotonicity                                *)
(* ------------------------------------------------------------------ *)

(* the rounded 53-bit mantissa, as in round53 *)
Definition rq (a e : Z) : Z :=
  let q := Z.shiftr a e in
  let r := a - Z.shiftl q e in
  let half := Z.shiftl 1 (e - 1) in
  if r <? half then q
  else if half <? r then q + 1
  else if Z.even q then q else q + 1.

(* the same with H = 2^(e-1) *)
Definition rqm (a H : Z) : Z :=
  let q := a / (2 * H) in
  let r := a - q * (2 * H) in
  if r <? H then q
  else if H <? r then q + 1
  else if Z.even q then q else q + 1.

Lemma pow2_split e : 1 <= e -> 2 ^ e = 2 * 2 ^ (e - 1).
Proof.
  intros He. rewrite <- Z.pow_succ_r by lia. f_equal. lia.
Qed.

Lemma rq_rqm a e : 1 <= e -> rq a e = rqm a (2 ^ (e - 1)).
Proof.
  intros He. unfold rq, rqm.
  rewrite Z.shiftr_div_pow2 by lia.
  rewrite !Z.shiftl_mul_pow2 by lia.
  rewrite (pow2_split e He). rewrite Z.mul_1_l. reflexivity.
Qed.

Lemma rqm_bounds a H : 0 < H -> a / (2 * H) <= rqm a H <= a / (2 * H) + 1.
Proof.
  intros HH. unfold rqm. cbv zeta.
  set (q := a / (2 * H)). set (r := a - q * (2 * H)).
  destruct (r <? H); [lia|].
  destruct (H <? r); [lia|].
  destruct (Z.even q); lia.
Qed.

Lemma rqm_mono a b H : 0 < H -> a <= b -> rqm a H <= rqm b H.
Proof.
  intros HH Hab.
  pose proof (rqm_bounds a H HH) as Ba.
  pose proof (rqm_bounds b H HH) as Bb.
  pose proof (Z.div_le_mono a b (2 * H) ltac:(lia) Hab) as Hq.
  destruct (Z.eq_dec (a / (2 * H)) (b / (2 * H))) as [E|NE]; [|lia].
  clear Ba Bb Hq.
  unfold rqm. cbv zeta. rewrite <- E.
  set (q := a / (2 * H)).
  set (t := q * (2 * H)).
  destruct (Z.ltb_spec (a - t) H); destruct (Z.ltb_spec (b - t) H);
    destruct (Z.ltb_spec H (a - t)); destruct (Z.ltb_spec H (b - t));
    destruct (Z.even q); lia.
Qed.

Definition two52 : Z := 4503599627370496.

Lemma large_facts a :
  0 < a -> 53 <= Z.log2 a ->
  let e := Z.log2 a + 1 - 53 in
  1 <= e /\ 0 < 2 ^ e /\
  2 ^ Z.log2 a = two52 * 2 ^ e /\
  2 ^ (Z.log2 a + 1) = two53 * 2 ^ e /\
  two52 * 2 ^ e <= a < two53 * 2 ^ e.
Proof.
  intros Ha Hl e.
  assert (He : 1 <= e) by (unfold e; lia).
  assert (Hp : 0 < 2 ^ e) by (apply Z.pow_pos_nonneg; lia).
  assert (E1 : 2 ^ Z.log2 a = two52 * 2 ^ e).
  { replace (Z.log2 a) with (52 + e) at 1 by (unfold e; lia).
    rewrite Z.pow_add_r by lia. reflexivity. }
  assert (E2 : 2 ^ (Z.log2 a + 1) = two53 * 2 ^ e).
  { replace (Z.log2 a + 1) with (53 + e) by (unfold e; lia).
    rewrite Z.pow_add_r by lia. reflexivity. }
  pose proof (Z.log2_spec a Ha) as Hs. unfold Z.succ in Hs.
  rewrite E1, E2 in Hs.
  repeat split; try assumption; lia.
Qed.

(* value of the rounded magnitude *)
Definition rmag (a : Z) : Z :=
  let e := Z.log2 a + 1 - 53 in rq a e * 2 ^ e.

Lemma round53_large x :
  53 < Z.log2 (Z.abs x) + 1 -> round53 x = Z.sgn x * rmag (Z.abs x).
Proof.
  intros H. unfold round53. cbv zeta.
  destruct (Z.leb_spec (Z.log2 (Z.abs x) + 1) 53) as [Hle|Hgt]; [lia|].
  f_equal. unfold rmag, rq. cbv zeta.
  apply Z.shiftl_mul_pow2. lia.
Qed.

Lemma rmag_bounds a :
  0 < a -> 53 <= Z.log2 a ->
  2 ^ Z.log2 a <= rmag a <= 2 ^ (Z.log2 a + 1).
Proof.
  intros Ha Hl.
  destruct (large_facts a Ha Hl) as (He & Hp & E1 & E2 & Hlo & Hhi).
  unfold rmag. cbv zeta.
  set (e := Z.log2 a + 1 - 53) in *.
  rewrite E1, E2. rewrite (rq_rqm a e He).
  assert (HH : 0 < 2 ^ (e - 1)) by (apply Z.pow_pos_nonneg; lia).
  pose proof (rqm_bounds a _ HH) as Bq.
  rewrite <- (pow2_split e He) in Bq.
  set (P := 2 ^ e) in *. set (m := rqm a (2 ^ (e - 1))) in *.
  clearbody m P.
  assert (Hq1 : two52 <= a / P).
  { apply Z.div_le_lower_bound; lia. }
  assert (Hq2 : a / P < two53).
  { apply Z.div_lt_upper_bound; lia. }
  split.
  - apply Z.mul_le_mono_nonneg_r; lia.
  - apply Z.mul_le_mono_nonneg_r; lia.
Qed.

Lemma log2_large_pos a : 0 <= a -> 53 <= Z.log2 a -> 0 < a.
Proof.
  intros H0 Hl. destruct (Z.eq_dec a 0) as [->|]; [|lia].
  cbn in Hl. lia.
Qed.

Lemma round53_sgn : forall x, Z.sgn (round53 x) = Z.sgn x.
Proof.
  intros x.
  destruct (Z.le_gt_cases (Z.log2 (Z.abs x) + 1) 53) as [Hs|Hl].
  - unfold round53. cbv zeta.
    destruct (Z.leb_spec (Z.log2 (Z.abs x) + 1) 53); [reflexivity|lia].
  - rewrite (round53_large x Hl).
    assert (Ha : 0 < Z.abs x) by (apply log2_large_pos; lia).
    pose proof (rmag_bounds (Z.abs x) Ha ltac:(lia)) as [Hlo _].
    assert (Hp : 0 < 2 ^ Z.log2 (Z.abs x)) by (apply Z.pow_pos_nonneg; [lia|apply Z.log2_nonneg]).
    rewrite Z.sgn_mul, (Z.sgn_pos (rmag (Z.abs x))) by lia.
    destruct x; reflexivity.
Qed.

Lemma round53_zero : forall x, round53 x = 0 <-> x = 0.
Proof.
  intros x. rewrite <- (Z.sgn_null_iff (round53 x)), round53_sgn.
  apply Z.sgn_null_iff.
Qed.

Lemma round53_neg x : round53 (- x) = - round53 x.
Proof.
  destruct (Z.le_gt_cases (Z.log2 (Z.abs x) + 1) 53) as [Hs|Hl].
  - unfold round53. cbv zeta. rewrite Z.abs_opp.
    destruct (Z.leb_spec (Z.log2 (Z.abs x) + 1) 53); [reflexivity|lia].
  - rewrite (round53_large x Hl).
    rewrite (round53_large (- x)) by (rewrite Z.abs_opp; exact Hl).
    rewrite Z.abs_opp, Z.sgn_opp. ring.
Qed.

Lemma round53_small_iff_branch x :
  Z.log2 (Z.abs x) + 1 <= 53 -> round53 x = x.
Proof.
  intros H. unfold round53. cbv zeta.
  destruct (Z.leb_spec (Z.log2 (Z.abs x) + 1) 53); [reflexivity|lia].
Qed.

Lemma rmag_mono a b :
  0 < a -> 53 <= Z.log2 a -> a <= b -> rmag a <= rmag b.
Proof.
  intros Ha Hla Hab.
  assert (Hb : 0 < b) by lia.
  pose proof (Z.log2_le_mono a b Hab) as Hlog.
  assert (Hlb : 53 <= Z.log2 b) by lia.
  destruct (Z.eq_dec (Z.log2 a) (Z.log2 b)) as [E|NE].
  - unfold rmag. cbv zeta. rewrite <- E.
    destruct (large_facts a Ha Hla) as (He & Hp & _).
    set (e := Z.log2 a + 1 - 53) in *.
    rewrite !(rq_rqm _ e He).
    apply Z.mul_le_mono_nonneg_r; [lia|].
    apply rqm_mono; [apply Z.pow_pos_nonneg; lia|exact Hab].
  - pose proof (rmag_bounds a Ha Hla) as [_ Hhi].
    pose proof (rmag_bounds b Hb Hlb) as [Hlo _].
    assert (Hpw : 2 ^ (Z.log2 a + 1) <= 2 ^ Z.log2 b)
      by (apply Z.pow_le_mono_r; lia).
    lia.
Qed.

Lemma round53_mono_nonneg x y : 0 <= x -> x <= y -> round53 x <= round53 y.
Proof.
  intros Hx Hxy.
  assert (Hy : 0 <= y) by lia.
  pose proof (Z.log2_le_mono x y Hxy) as Hlog.
  destruct (Z.le_gt_cases (Z.log2 (Z.abs y) + 1) 53) as [Hys|Hyl].
  - rewrite (round53_small_iff_branch y Hys).
    rewrite (round53_small_iff_branch x)
      by (rewrite Z.abs_eq in * by lia; lia).
    exact Hxy.
  - rewrite (round53_large y Hyl).
    rewrite (Z.abs_eq y) in * by lia.
    assert (Hy0 : 0 < y) by (apply log2_large_pos; lia).
    rewrite (Z.sgn_pos y Hy0), Z.mul_1_l.
    destruct (Z.le_gt_cases (Z.log2 (Z.abs x) + 1) 53) as [Hxs|Hxl].
    + rewrite (round53_small_iff_branch x Hxs).
      rewrite (Z.abs_eq x) in * by lia.
      pose proof (rmag_bounds y Hy0 ltac:(lia)) as [Hlo _].
      assert (Hpw : 2 ^ 53 <= 2 ^ Z.log2 y) by (apply Z.pow_le_mono_r; lia).
      destruct (Z.eq_dec x 0) as [->|Hx0].
      * assert (0 < 2 ^ 53) by (apply Z.pow_pos_nonneg; lia). lia.
      * pose proof (Z.log2_spec x ltac:(lia)) as [_ Hs].
        assert (Hpx : 2 ^ Z.succ (Z.log2 x) <= 2 ^ 53)
          by (apply Z.pow_le_mono_r; lia).
        lia.
    + rewrite (round53_large x Hxl).
      rewrite (Z.abs_eq x) in * by lia.
      assert (Hx0 : 0 < x) by (apply log2_large_pos; lia).
      rewrite (Z.sgn_pos x Hx0), Z.mul_1_l.
      apply rmag_mono; lia.
Qed.

Lemma round53_mono : forall x y, x <= y -> round53 x <= round53 y.
Proof.
  intros x y Hxy.
  destruct (Z.le_gt_cases 0 x) as [Hx|Hx].
  - apply round53_mono_nonneg; assumption.
  - destruct (Z.le_gt_cases y 0) as [Hy|Hy].
    + pose proof (round53_mono_nonneg (- y) (- x) ltac:(lia) ltac:(lia)) as H.
      rewrite !round53_neg in H. lia.
    + pose proof (round53_sgn x) as Sx. pose proof (round53_sgn y) as Sy.
      rewrite (Z.sgn_neg x Hx) in Sx. rewrite (Z.sgn_pos y Hy) in Sy.
      apply Z.sgn_neg_iff in Sx. apply Z.sgn_pos_iff in Sy. lia.
Qed.

(* ------------------------------------------------------------------ *)
(* 7. CrossProduct has the sign of the exact cross product             *)
(* ------------------------------------------------------------------ *)

Theorem CrossProduct_sign : forall p1 p2 p3,
  coord_ok two29 p1 -> coord_ok two29 p2 -> coord_ok two29 p3 ->
  Z.sgn (CrossProduct p1 p2 p3) = Z.sgn (cross_exact p1 p2 p3).
Proof.
  intros p1 p2 p3 H1 H2 H3. unfold CrossProduct.
  rewrite round53_sgn, cross64_exact by assumption. reflexivity.
Qed.

(* ------------------------------------------------------------------ *)
(* 8. Beyond the stated ranges the Go code is wrong                    *)
(* ------------------------------------------------------------------ *)

Theorem products_equal_refuted : exists a b c d,
  in64 a /\ in64 b /\ in64 c /\ in64 d /\
  Z.abs a <= 2 ^ 61 /\ Z.abs b <= 2 ^ 61 /\ Z.abs c <= 2 ^ 61 /\ Z.abs d <= 2 ^ 61 /\
  a * b <> c * d /\ productsAreEqual a b c d = true.
Proof.
  exists (two53 + 1), 1, two53, 1.
  unfold in64.
  repeat split; try (vm_compute; intro Hc; discriminate Hc); try (vm_compute; reflexivity).
Qed.

Theorem cross64_refuted : exists p1 p2 p3,
  coord_ok (2 ^ 61) p1 /\ coord_ok (2 ^ 61) p2 /\ coord_ok (2 ^ 61) p3 /\
  Z.sgn (cross64 p1 p2 p3) <> Z.sgn (cross_exact p1 p2 p3).
Proof.
  exists (0, 0), (2 ^ 61, 0), (2 ^ 61, 2 ^ 61).
  unfold coord_ok.
  repeat split; try (vm_compute; intro Hc; discriminate Hc).
Qed.

Print Assumptions multiply_exact.
Print Assumptions products_equal_exact_partial.
Print Assumptions collinear_exact_partial.
Print Assumptions collinear_wrong_only_if_unit_diff.
Print Assumptions collinear_refuted_false_positive.
Print Assumptions collinear_refuted_false_negative.
Print Assumptions CrossProduct_sign.
