(* Extract.v — extraction of the executable models and checkers to OCaml.
   ExtrOcamlBasic only: Z, positive, Q stay the extracted inductive types. *)
From Coq Require Extraction.
From Coq Require Import ExtrOcamlBasic.
From Clip Require Import Base.Int64 Model.Arith Base.Geom Cert.Region Cert.RectLine Cert.Line Cert.Instances Model.Trim Model.Measures Model.Simplify Model.SimplifyF64 Model.Exports.
From Coq Require Import ZArith QArith.
Extraction Blacklist String List Nat.
Extraction "clipmodel.ml"
  Z.add Z.mul Z.sub Z.div_eucl Z.opp Z.compare Z.of_nat Z.to_nat
  wrap64 round53 triSign multiplyUInt64 productsAreEqual isCollinear cross64 CrossProduct
  gen_check gen_diag Qred trim_faithful trim_exact mink_model
  Area64_twice IsPositive64_model shoelace2 GetBounds64_model getBounds_model StripDuplicates_model pip_model pip_spec cross_exact
  SimplifyPath64_model SimplifyPathD_model simplify_exact perp_f64
  rectlines_check rectline_check verts_in_rect verts_on_lines cov_intervals c09_seg_check.
