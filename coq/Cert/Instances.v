(* Cert/Instances.v — the region checker with a small language of decision
   functions on the winding vector; this is what the extracted driver calls.
   Each property's theorem (Props/Cxx.v) instantiates region_sound with one of
   these decision functions and restates the result in the property's words. *)
From Coq Require Import QArith ZArith List Bool.
From Clip Require Import Base.Int64 Model.Arith Base.Geom Cert.Region.
Import ListNotations.

Definition nz (z : Z) : bool := negb (z =? 0)%Z.

Inductive fspec :=
| FBool (ct : cliptype) (fr : fillrule)   (* [s; c; o]: odd o = ct (fr s) (fr c) *)
| FCanon (s : Z)                          (* [o]: o = 0 or o = s *)
| FSameNZ                                 (* [a; b]: (a<>0) = (b<>0) *)
| FSameOdd                                (* [a; b]: odd a = odd b *)
| FEq                                     (* [a; b]: a = b *)
| FImp                                    (* [a; b]: a<>0 -> b<>0 *)
| FDisj                                   (* [a; b]: not both nonzero *)
| FRect                                   (* [i; o; r]: if r<>0 then o = i else o = 0 *)
| FOddNZ                                  (* [a; b]: odd a = (b<>0) *)
| FOddImpNZ                               (* [a; b]: odd a -> b<>0 *)
| FNZImpOdd                               (* [a; b]: a<>0 -> odd b *)
| FFour (fr : fillrule).                  (* [u; i; d; x; d']: the set identities of C19 *)

Definition fdec (sp : fspec) (v : list Z) : bool :=
  match sp with
  | FBool ct fr => Bool.eqb (Z.odd (nth0 v 2)) (expected ct (filled fr (nth0 v 0)) (filled fr (nth0 v 1)))
  | FCanon s => (nth0 v 0 =? 0)%Z || (nth0 v 0 =? s)%Z
  | FSameNZ => Bool.eqb (nz (nth0 v 0)) (nz (nth0 v 1))
  | FSameOdd => Bool.eqb (Z.odd (nth0 v 0)) (Z.odd (nth0 v 1))
  | FEq => (nth0 v 0 =? nth0 v 1)%Z
  | FImp => negb (nz (nth0 v 0)) || nz (nth0 v 1)
  | FDisj => negb (nz (nth0 v 0) && nz (nth0 v 1))
  | FRect => if nz (nth0 v 2) then (nth0 v 1 =? nth0 v 0)%Z else (nth0 v 1 =? 0)%Z
  | FOddNZ => Bool.eqb (Z.odd (nth0 v 0)) (nz (nth0 v 1))
  | FOddImpNZ => negb (Z.odd (nth0 v 0)) || nz (nth0 v 1)
  | FNZImpOdd => negb (nz (nth0 v 0)) || Z.odd (nth0 v 1)
  | FFour _ =>
      let u := Z.odd (nth0 v 0) in
      let i := Z.odd (nth0 v 1) in
      let d := Z.odd (nth0 v 2) in
      let x := Z.odd (nth0 v 3) in
      let d' := Z.odd (nth0 v 4) in
      Bool.eqb x (u && negb i) &&            (* Xor = Union minus Intersection *)
      Bool.eqb u (d || i || d') &&           (* the three pieces make up Union *)
      negb (d && i) && negb (d && d') && negb (i && d')  (* pairwise disjoint *)
  end.

Definition band_edges (BandC BandO : paths) : list edge :=
  edges_of_paths BandC ++ flat_map edges_open BandO.

Definition gen_check (sp : fspec) (rm : Z) (fuel : nat) (r2 : Q)
           (Ps : list paths) (BandC BandO : paths) (Y : list Q) : bool :=
  region_check Ps (band_edges BandC BandO) r2 rm fuel (fdec sp) Y.

Definition gen_diag (sp : fspec) (rm : Z) (fuel : nat) (r2 : Q)
           (Ps : list paths) (BandC BandO : paths) (Y : list Q) :=
  region_diag Ps (band_edges BandC BandO) r2 rm fuel (fdec sp) Y.
