(* Cert/RectLine.v — executable checker for rectangle clipping of open polylines
   (C11), definitions only.  One input segment (a,b) of an input polyline is
   checked against the whole open solution OS.  Soundness: RectLineSound.v. *)
From Coq Require Import QArith ZArith List Bool.
From Clip Require Import Base.Int64 Model.Arith Base.Geom Cert.Region.
Import ListNotations.
Open Scope Q_scope.

Record irect := mkRect { rl : Z; rt : Z; rr : Z; rb : Z }.

(* the point of the segment a-b at parameter t *)
Definition q_at (a b : pt) (t : Q) : qpt :=
  (zq (px a) + t * zq (px b - px a), zq (py a) + t * zq (py b - py a)).

Definition clamp01 (t : Q) : Q := if Qle_bool t 0 then 0 else if Qle_bool 1 t then 1 else t.

(* parameter of the orthogonal projection of u on the line a-b, clamped to [0,1] *)
Definition proj_t (a b u : pt) : Q :=
  let dx := zq (px b - px a) in
  let dy := zq (py b - py a) in
  let L := dx * dx + dy * dy in
  if Qeq_bool L 0 then 0
  else clamp01 (Qred (((zq (px u - px a)) * dx + (zq (py u - py a)) * dy) / L)).

(* a solution segment u-v "belongs to" the input segment a-b when both its end
   points are within sqrt(tol2) of a-b; it then covers the parameters between
   the projections of u and v *)
Definition cov_of (a b : pt) (tol2 : Q) (uv : edge) : list (Q * Q) :=
  let u := fst uv in
  let v := snd uv in
  if near_segQ (a, b) tol2 (zq (px u), zq (py u)) && near_segQ (a, b) tol2 (zq (px v), zq (py v))
  then let tu := proj_t a b u in
       let tv := proj_t a b v in
       [(if Qle_bool tu tv then tu else tv, if Qle_bool tu tv then tv else tu)]
  else [].

Definition cov_intervals (a b : pt) (tol2 : Q) (OS : paths) : list (Q * Q) :=
  flat_map (cov_of a b tol2) (flat_map edges_open OS).

(* ---- Liang-Barsky: the parameters t in [0,1] with lo <= c0 + t*c1 <= hi ---- *)
(* each constraint narrows an interval [t1, t2]; None = empty *)
Definition narrow (c0 c1 lo hi : Q) (I : option (Q * Q)) : option (Q * Q) :=
  match I with
  | None => None
  | Some (t1, t2) =>
      if negb (Qle_bool lo hi) then None
      else if Qeq_bool c1 0 then
        (if Qle_bool lo c0 && Qle_bool c0 hi then Some (t1, t2) else None)
      else
        let ta := Qred ((lo - c0) / c1) in
        let tb := Qred ((hi - c0) / c1) in
        let tlo := if Qle_bool ta tb then ta else tb in
        let thi := if Qle_bool ta tb then tb else ta in
        let n1 := if Qle_bool t1 tlo then tlo else t1 in
        let n2 := if Qle_bool thi t2 then thi else t2 in
        if Qle_bool n1 n2 then Some (n1, n2) else None
  end.

(* parameters where the point lies in the closed rectangle [xlo,xhi] x [ylo,yhi] *)
Definition box_range (a b : pt) (xlo xhi ylo yhi : Q) : option (Q * Q) :=
  narrow (zq (py a)) (zq (py b - py a)) ylo yhi
    (narrow (zq (px a)) (zq (px b - px a)) xlo xhi (Some (0, 1))).

(* is the rational point within sqrt(r2) of the filled rectangle? (clamp = nearest point) *)
Definition clampQ (lo hi x : Q) : Q := if Qle_bool x lo then lo else if Qle_bool hi x then hi else x.
Definition near_rectQ (R : irect) (r2 : Q) (c : qpt) : bool :=
  let cx := clampQ (zq (rl R)) (zq (rr R)) (fst c) in
  let cy := clampQ (zq (rt R)) (zq (rb R)) (snd c) in
  Qle_bool ((fst c - cx) * (fst c - cx) + (snd c - cy) * (snd c - cy)) r2.

Definition rectline_check (R : irect) (a b : pt) (OS : paths) : bool :=
  let cov := cov_intervals a b 1 OS in
  (rl R <? rr R)%Z && (rt R <? rb R)%Z &&
  (* (A) whatever lies in the rectangle shrunk by 2 is covered by ONE solution piece *)
  match box_range a b (zq (rl R + 2)) (zq (rr R - 2)) (zq (rt R + 2)) (zq (rb R - 2)) with
  | None => true
  | Some (t1, t2) => existsb (fun J => Qle_bool (fst J) t1 && Qle_bool t2 (snd J)) cov
  end &&
  (* (B) every covered parameter lies within 2 of the filled rectangle *)
  forallb (fun J => near_rectQ R 4 (q_at a b (fst J)) && near_rectQ R 4 (q_at a b (snd J))) cov.

(* every vertex of the solution is within the rectangle enlarged by 1 *)
Definition verts_in_rect (R : irect) (OS : paths) : bool :=
  forallb (forallb (fun p => (rl R - 1 <=? px p)%Z && (px p <=? rr R + 1)%Z &&
                             (rt R - 1 <=? py p)%Z && (py p <=? rb R + 1)%Z)) OS.

(* every vertex of the solution is within 1 unit (squared distance <= 1) of some segment of the input lines *)
Definition verts_on_lines (Lines OS : paths) : bool :=
  forallb (forallb (fun p => existsb (fun e => near_segQ e 1 (zq (px p), zq (py p))) (flat_map edges_open Lines))) OS.

Definition rectlines_check (R : irect) (Lines OS : paths) : bool :=
  verts_in_rect R OS && verts_on_lines Lines OS &&
  (* zero-length input segments are single points of their neighbours *)
  forallb (fun e => pt_eqb (fst e) (snd e) || rectline_check R (fst e) (snd e) OS) (flat_map edges_open Lines).
