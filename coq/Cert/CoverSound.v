(* Cert/CoverSound.v — soundness of the [cover] check of Cert/Region.v:
   every REAL point of an accepted trapezoid is within sqrt r2 of some edge. *)
From Coq Require Import Reals QArith Qreals ZArith List Bool Lra Lia Psatz.
From Clip Require Import Base.Int64 Model.Arith Base.Geom Cert.Region Cert.RegionSpec.
Import ListNotations.
Open Scope R_scope.

(* ------------------------------------------------------------------ *)
(* 1. bridging Q -> R                                                   *)

Lemma Q2R_zq : forall z, Q2R (zq z) = IZR z.
Proof.
  intro z. unfold zq, inject_Z, Q2R. cbn [Qnum Qden].
  rewrite Rinv_1. ring.
Qed.

Lemma Q2R_Qred : forall x, Q2R (Qred x) = Q2R x.
Proof. intro x. apply Qeq_eqR. apply Qred_correct. Qed.

Lemma Q2R_zero : Q2R 0%Q = 0.
Proof. unfold Q2R. cbn [Qnum Qden]. rewrite Rinv_1. ring. Qed.

Lemma Q2R_one : Q2R 1%Q = 1.
Proof. unfold Q2R. cbn [Qnum Qden]. rewrite Rinv_1. ring. Qed.

Lemma Q2R_half : forall a b, Q2R (half a b) = (Q2R a + Q2R b) / 2.
Proof.
  intros a b. unfold half. rewrite Q2R_Qred. unfold Qdiv.
  rewrite Q2R_mult, Q2R_plus.
  assert (H2 : Q2R (/ 2) = / 2).
  { unfold Q2R. cbn [Qinv Qnum Qden]. lra. }
  rewrite H2. unfold Rdiv. reflexivity.
Qed.

Lemma Qle_bool_false_lt : forall x y, Qle_bool x y = false -> Q2R y < Q2R x.
Proof.
  intros x y H. apply Qlt_Rlt. apply Qnot_le_lt. intro Hle.
  apply Qle_bool_iff in Hle. rewrite Hle in H. discriminate.
Qed.

Lemma Qle_bool_true_le : forall x y, Qle_bool x y = true -> Q2R x <= Q2R y.
Proof. intros x y H. apply Qle_Rle. apply Qle_bool_iff. exact H. Qed.

(* ------------------------------------------------------------------ *)
(* 2. near_segQ is sound                                                *)

Lemma clamp_range : forall p L : Q,
  0 <= Q2R (if Qle_bool p 0 then 0%Q else if Qle_bool L p then 1%Q else Qred (p / L)) <= 1.
Proof.
  intros p L.
  destruct (Qle_bool p 0) eqn:Hp.
  - rewrite Q2R_zero. lra.
  - destruct (Qle_bool L p) eqn:HL.
    + rewrite Q2R_one. lra.
    + apply Qle_bool_false_lt in Hp. apply Qle_bool_false_lt in HL.
      rewrite Q2R_zero in Hp.
      assert (HLpos : 0 < Q2R L) by lra.
      assert (HLnz : ~ (L == 0)%Q).
      { intro Heq. apply Qeq_eqR in Heq. rewrite Q2R_zero in Heq. lra. }
      rewrite Q2R_Qred. rewrite Q2R_div by exact HLnz.
      assert (Hi : 0 < / Q2R L) by (apply Rinv_0_lt_compat; exact HLpos).
      unfold Rdiv. split.
      * apply Rlt_le. apply Rmult_lt_0_compat; assumption.
      * apply Rmult_le_reg_r with (Q2R L); [exact HLpos|].
        rewrite Rmult_assoc, Rinv_l by lra. lra.
Qed.

Lemma near_segQ_sound : forall e r2 c,
  near_segQ e r2 c = true ->
  near_seg (IP (fst e)) (IP (snd e)) (QP c) (Q2R r2).
Proof.
  intros e r2 c. unfold near_segQ.
  set (ax := zq (px (fst e))).
  set (ay := zq (py (fst e))).
  set (dx := zq (px (snd e) - px (fst e))).
  set (dy := zq (py (snd e) - py (fst e))).
  set (L := (dx * dx + dy * dy)%Q).
  set (p := ((fst c - ax) * dx + (snd c - ay) * dy)%Q).
  cbv zeta.
  set (t := if Qle_bool p 0 then 0%Q else if Qle_bool L p then 1%Q else Qred (p / L)).
  intro H.
  assert (Ht : 0 <= Q2R t <= 1) by (apply clamp_range).
  clearbody t.
  apply Qle_bool_true_le in H.
  exists (Q2R t). split; [exact Ht|].
  eapply Rle_trans; [|exact H].
  apply Req_le.
  repeat (rewrite ?Q2R_plus, ?Q2R_mult, ?Q2R_minus).
  unfold ax, ay, dx, dy. rewrite !Q2R_zq, !minus_IZR.
  unfold dist2_at, IP, QP. cbn [fst snd]. ring.
Qed.

(* ------------------------------------------------------------------ *)
(* 3. convexity of near_seg                                             *)

Lemma convex_core : forall u1 v1 u2 v2 l r : R,
  0 <= l <= 1 ->
  u1 * u1 + v1 * v1 <= r ->
  u2 * u2 + v2 * v2 <= r ->
  ((1 - l) * u1 + l * u2) * ((1 - l) * u1 + l * u2)
  + ((1 - l) * v1 + l * v2) * ((1 - l) * v1 + l * v2) <= r.
Proof.
  intros u1 v1 u2 v2 l r Hl H1 H2.
  assert (E : ((1 - l) * u1 + l * u2) * ((1 - l) * u1 + l * u2)
              + ((1 - l) * v1 + l * v2) * ((1 - l) * v1 + l * v2)
              = (1 - l) * (u1 * u1 + v1 * v1) + l * (u2 * u2 + v2 * v2)
                - (l * (1 - l)) * ((u1 - u2) * (u1 - u2) + (v1 - v2) * (v1 - v2))) by ring.
  rewrite E. clear E.
  assert (HD : 0 <= (u1 - u2) * (u1 - u2) + (v1 - v2) * (v1 - v2)).
  { pose proof (Rle_0_sqr (u1 - u2)) as Ha. pose proof (Rle_0_sqr (v1 - v2)) as Hb.
    unfold Rsqr in Ha, Hb. lra. }
  set (A := u1 * u1 + v1 * v1) in *.
  set (B := u2 * u2 + v2 * v2) in *.
  set (D := (u1 - u2) * (u1 - u2) + (v1 - v2) * (v1 - v2)) in *.
  clearbody A B D.
  assert (Ha : (1 - l) * A <= (1 - l) * r) by (apply Rmult_le_compat_l; lra).
  assert (Hb : l * B <= l * r) by (apply Rmult_le_compat_l; lra).
  assert (Hc : 0 <= (l * (1 - l)) * D).
  { apply Rmult_le_pos; [apply Rmult_le_pos; lra|exact HD]. }
  set (X := (1 - l) * A) in *. set (Y := l * B) in *. set (Z := l * (1 - l) * D) in *.
  clearbody X Y Z. lra.
Qed.

Lemma near_seg_convex : forall a b P1 P2 r l,
  0 <= l <= 1 ->
  near_seg a b P1 r -> near_seg a b P2 r ->
  near_seg a b ((1 - l) * fst P1 + l * fst P2, (1 - l) * snd P1 + l * snd P2) r.
Proof.
  intros a b P1 P2 r l Hl [t1 [Ht1 H1]] [t2 [Ht2 H2]].
  exists ((1 - l) * t1 + l * t2). split.
  - assert (Ha : 0 <= (1 - l) * t1) by (apply Rmult_le_pos; lra).
    assert (Hb : 0 <= l * t2) by (apply Rmult_le_pos; lra).
    assert (Hc : (1 - l) * t1 <= (1 - l) * 1) by (apply Rmult_le_compat_l; lra).
    assert (Hd : l * t2 <= l * 1) by (apply Rmult_le_compat_l; lra).
    lra.
  - unfold dist2_at in *. cbn [fst snd] in *.
    set (u1 := fst P1 - (fst a + t1 * (fst b - fst a))) in *.
    set (v1 := snd P1 - (snd a + t1 * (snd b - snd a))) in *.
    set (u2 := fst P2 - (fst a + t2 * (fst b - fst a))) in *.
    set (v2 := snd P2 - (snd a + t2 * (snd b - snd a))) in *.
    pose proof (convex_core u1 v1 u2 v2 l r Hl H1 H2) as Hc.
    eapply Rle_trans; [|exact Hc].
    apply Req_le. unfold u1, v1, u2, v2. ring.
Qed.

(* ------------------------------------------------------------------ *)
(* 4. near4 is sound for every real point of the trapezoid              *)

Lemma near4_sound : forall rm r2 T e q,
  near4 rm r2 T e = true -> in_trap T q ->
  near_seg (IP (fst e)) (IP (snd e)) q (Q2R r2).
Proof.
  intros rm r2 T e q H Hq.
  unfold near4 in H. apply andb_true_iff in H. destruct H as [_ H].
  unfold corners in H. cbn [forallb] in H.
  apply andb_true_iff in H. destruct H as [H1 H].
  apply andb_true_iff in H. destruct H as [H2 H].
  apply andb_true_iff in H. destruct H as [H3 H].
  apply andb_true_iff in H. destruct H as [H4 _].
  apply near_segQ_sound in H1. apply near_segQ_sound in H2.
  apply near_segQ_sound in H3. apply near_segQ_sound in H4.
  destruct Hq as [s [u [Hs [Hu [Hy Hx]]]]].
  pose proof (near_seg_convex _ _ _ _ _ s Hs H1 H2) as HL.
  pose proof (near_seg_convex _ _ _ _ _ s Hs H3 H4) as HR.
  pose proof (near_seg_convex _ _ _ _ _ u Hu HL HR) as HQ.
  unfold QP in HQ. cbn [fst snd] in HQ.
  assert (Eq : q = ((1 - u) * ((1 - s) * Q2R (xl0 T) + s * Q2R (xl1 T)) +
                    u * ((1 - s) * Q2R (xr0 T) + s * Q2R (xr1 T)),
                    (1 - u) * ((1 - s) * Q2R (ty0 T) + s * Q2R (ty1 T)) +
                    u * ((1 - s) * Q2R (ty0 T) + s * Q2R (ty1 T)))).
  { destruct q as [qx qy]. cbn [fst snd] in Hx, Hy. rewrite Hx, Hy. f_equal. ring. }
  rewrite Eq. exact HQ.
Qed.

(* ------------------------------------------------------------------ *)
(* 5. the four sub-cells cover the cell                                 *)

Lemma split4_cover : forall T q,
  in_trap T q -> exists T', In T' (split4 T) /\ in_trap T' q.
Proof.
  intros T q [s [u [Hs [Hu [Hy Hx]]]]].
  unfold split4.
  destruct (Rle_lt_dec s (1 / 2)) as [Hs2|Hs2];
    destruct (Rle_lt_dec u (1 / 2)) as [Hu2|Hu2].
  - eexists. split; [left; reflexivity|].
    exists (2 * s), (2 * u).
    split; [lra|]. split; [lra|].
    cbn [ty0 ty1 xl0 xl1 xr0 xr1]. rewrite !Q2R_half.
    split; [rewrite Hy; field | rewrite Hx; field].
  - eexists. split; [right; left; reflexivity|].
    exists (2 * s), (2 * u - 1).
    split; [lra|]. split; [lra|].
    cbn [ty0 ty1 xl0 xl1 xr0 xr1]. rewrite !Q2R_half.
    split; [rewrite Hy; field | rewrite Hx; field].
  - eexists. split; [right; right; left; reflexivity|].
    exists (2 * s - 1), (2 * u).
    split; [lra|]. split; [lra|].
    cbn [ty0 ty1 xl0 xl1 xr0 xr1]. rewrite !Q2R_half.
    split; [rewrite Hy; field | rewrite Hx; field].
  - eexists. split; [right; right; right; left; reflexivity|].
    exists (2 * s - 1), (2 * u - 1).
    split; [lra|]. split; [lra|].
    cbn [ty0 ty1 xl0 xl1 xr0 xr1]. rewrite !Q2R_half.
    split; [rewrite Hy; field | rewrite Hx; field].
Qed.

(* ------------------------------------------------------------------ *)
(* 6. cover is sound                                                    *)

Theorem cover_sound : cover_sound_stmt.
Proof.
  unfold cover_sound_stmt.
  induction fuel as [|f IH]; intros rm E r2 T q H Hq Hfar.
  - cbn [cover] in H. rewrite orb_false_r in H.
    apply existsb_exists in H. destruct H as [e [He Hn]].
    apply (Hfar e He). eapply near4_sound; eassumption.
  - cbn [cover] in H. apply orb_true_iff in H. destruct H as [H|H].
    + apply existsb_exists in H. destruct H as [e [He Hn]].
      apply (Hfar e He). eapply near4_sound; eassumption.
    + destruct (split4_cover T q Hq) as [T' [HT' Hq']].
      rewrite forallb_forall in H. specialize (H T' HT').
      exact (IH rm E r2 T' q H Hq' Hfar).
Qed.

Print Assumptions cover_sound.
