(* Cert/SlabSound.v — soundness of the one-slab walk of the region checker,
   relative to the soundness of [cover]. *)
From Coq Require Import Reals QArith Qreals ZArith List Bool Lra Lia Permutation Sorted Mergesort.
From Clip Require Import Base.Int64 Model.Arith Base.Geom Cert.Region Cert.RegionSpec.
Import ListNotations.
Open Scope R_scope.

(* ---------- small bridges ---------- *)

Lemma Q2R_zq z : Q2R (zq z) = IZR z.
Proof. unfold zq, Q2R, inject_Z. cbn [Qnum Qden]. field. Qed.

Lemma Qle_bool_R a b : Qle_bool a b = true -> Q2R a <= Q2R b.
Proof. intro H. apply Qle_Rle. apply Qle_bool_iff. exact H. Qed.

Lemma Qeq_bool_R a b : Qeq_bool a b = true -> Q2R a = Q2R b.
Proof. intro H. apply Qeq_eqR. apply Qeq_bool_iff. exact H. Qed.

Lemma zq_diff_nz a b : a <> b -> ~ (zq b - zq a == 0)%Q.
Proof.
  intros Hne H. apply Qeq_eqR in H.
  rewrite Q2R_minus, !Q2R_zq in H.
  assert (H0 : Q2R 0 = 0) by (unfold Q2R; cbn [Qnum Qden]; field).
  rewrite H0 in H. apply Hne. symmetry. apply eq_IZR. lra.
Qed.

Lemma xatQ_R (e : edge) y :
  py (fst e) <> py (snd e) ->
  Q2R (xatQ e y) = xat (IP (fst e)) (IP (snd e)) (Q2R y).
Proof.
  intros Hne. unfold xatQ.
  rewrite (Qeq_eqR _ _ (Qred_correct _)).
  rewrite Q2R_plus, Q2R_div by (apply zq_diff_nz; exact Hne).
  rewrite Q2R_mult, !Q2R_minus, !Q2R_zq.
  unfold xat, IP. cbn [fst snd]. reflexivity.
Qed.

Lemma xat_affine a b s Y0 Y1 :
  snd b - snd a <> 0 ->
  xat a b ((1 - s) * Y0 + s * Y1) = (1 - s) * xat a b Y0 + s * xat a b Y1.
Proof. intros H. unfold xat. field. exact H. Qed.

Lemma div_bounds a b : 0 <= a <= b -> 0 < b -> 0 <= a / b <= 1.
Proof.
  intros Ha Hb. unfold Rdiv.
  pose proof (Rinv_0_lt_compat b Hb) as Hi.
  assert (Hbi : b * / b = 1) by (field; lra).
  set (i := / b) in *. clearbody i.
  split.
  - apply Rmult_le_pos; lra.
  - assert (0 <= (b - a) * i) by (apply Rmult_le_pos; lra). lra.
Qed.

Lemma zsum_cons a l : zsum (a :: l) = (a + zsum l)%Z.
Proof. reflexivity. Qed.

Lemma zsum_perm {A} (g : A -> Z) l l' :
  Permutation l l' -> zsum (map g l) = zsum (map g l').
Proof.
  induction 1; cbn [map]; rewrite ?zsum_cons; lia.
Qed.

Lemma zsum_zero {A} (g : A -> Z) l :
  (forall a, In a l -> g a = 0%Z) -> zsum (map g l) = 0%Z.
Proof.
  induction l as [|a l IH]; intros H; cbn [map]; [reflexivity|].
  rewrite zsum_cons, (H a) by (cbn; auto).
  rewrite IH; [reflexivity|]. intros b Hb. apply H. cbn. auto.
Qed.

Lemma sort_items_perm l : Permutation l (sort_items l).
Proof.
  unfold sort_items.
  set (key := fun it : item => (Qred (ix0 it + ix1 it), it)).
  assert (H : l = map snd (map key l)).
  { rewrite map_map. unfold key. cbn [snd]. rewrite map_id. reflexivity. }
  rewrite H at 1. apply Permutation_map. apply ItemSort.Permuted_sort.
Qed.

Lemma vadd_length k d v : length (vadd k d v) = length v.
Proof.
  revert k; induction v as [|a v IH]; intros k; [destruct k; reflexivity|].
  destruct k; cbn [vadd length]; [reflexivity|]. rewrite IH. reflexivity.
Qed.

Lemma nth_vadd k d v j :
  (k < length v)%nat ->
  nth j (vadd k d v) 0%Z = (nth j v 0 + if Nat.eqb k j then d else 0)%Z.
Proof.
  revert k j; induction v as [|a v IH]; intros k j Hk; [cbn in Hk; lia|].
  destruct k; cbn [vadd].
  - destruct j; cbn [nth Nat.eqb]; lia.
  - destruct j; cbn [nth Nat.eqb]; [lia|]. apply IH. cbn in Hk. lia.
Qed.

Lemma nth_map_seq (g : nat -> Z) n k :
  (k < n)%nat -> nth k (map g (seq 0 n)) 0%Z = g k.
Proof.
  intros Hk. rewrite (nth_indep _ 0%Z (g 0%nat)) by (rewrite map_length, seq_length; exact Hk).
  rewrite map_nth, seq_nth by exact Hk. reflexivity.
Qed.

Lemma nth_repeat0 n k : nth k (repeat 0%Z n) 0%Z = 0%Z.
Proof.
  revert k; induction n; intros k; destruct k; cbn [repeat nth]; auto.
Qed.

(* ---------- the slab ---------- *)

Section Slab.
  Hypothesis cover_sound : cover_sound_stmt.

  Variables (y0 y1 : Q) (s x yq : R).
  Hypothesis Hs : 0 <= s < 1.
  Hypothesis Hy : Q2R y0 < Q2R y1.
  Hypothesis Hyq : yq = (1 - s) * Q2R y0 + s * Q2R y1.

  Lemma yq_in : Q2R y0 <= yq < Q2R y1.
  Proof.
    assert (H1 : 0 <= s * (Q2R y1 - Q2R y0)) by (apply Rmult_le_pos; lra).
    assert (H2 : 0 < (1 - s) * (Q2R y1 - Q2R y0)) by (apply Rmult_lt_0_compat; lra).
    rewrite Hyq. split; lra.
  Qed.

  Definition xq (it : item) : R := (1 - s) * Q2R (ix0 it) + s * Q2R (ix1 it).

  Definition ctr (k : nat) (it : item) : Z :=
    if Nat.eqb (itag it) k then (if Rlt_dec (xq it) x then idir it else 0%Z) else 0%Z.

  Lemma xq_mk_item (k : nat) (e : edge) :
    py (fst e) <> py (snd e) ->
    xq (mk_item y0 y1 (k, e)) = xat (IP (fst e)) (IP (snd e)) yq.
  Proof.
    intros Hne. unfold xq, mk_item. cbn [ix0 ix1 snd].
    rewrite !xatQ_R by exact Hne.
    rewrite Hyq. symmetry. apply xat_affine.
    unfold IP; cbn [snd]. intro H. apply Hne. symmetry. apply eq_IZR. lra.
  Qed.

  Lemma cre_spanning (e : edge) (k : nat) :
    spanning y0 y1 e = true ->
    cre e (x, yq) = if Rlt_dec (xq (mk_item y0 y1 (k, e))) x then edir e else 0%Z.
  Proof.
    unfold spanning. rewrite !andb_true_iff, negb_true_iff. intros [[Hh Hlo] Hhi].
    unfold horiz in Hh. apply Z.eqb_neq in Hh.
    rewrite (xq_mk_item k e Hh).
    apply Qle_bool_R in Hlo. apply Qle_bool_R in Hhi.
    rewrite Q2R_zq in Hlo, Hhi.
    pose proof yq_in as Hin.
    unfold cre, cr, edir, ylo, yhi in *. unfold IP in *. cbn [fst snd] in *.
    set (X := xat _ _ _). clearbody X.
    destruct (Z.ltb_spec (py (fst e)) (py (snd e))) as [Hlt|Hge].
    - rewrite Z.min_l in Hlo by lia. rewrite Z.max_r in Hhi by lia.
      destruct (Rle_dec (IZR (py (fst e))) yq) as [H1|H1]; [|lra].
      destruct (Rlt_dec yq (IZR (py (snd e)))) as [H2|H2]; [|lra].
      reflexivity.
    - assert (Hgt : (py (snd e) < py (fst e))%Z) by lia.
      rewrite Z.min_r in Hlo by lia. rewrite Z.max_l in Hhi by lia.
      destruct (Rle_dec (IZR (py (fst e))) yq) as [H1|H1]; [lra|].
      destruct (Rle_dec (IZR (py (snd e))) yq) as [H2|H2]; [|lra].
      reflexivity.
  Qed.

  Lemma cre_disjoint (e : edge) :
    disjointb y0 y1 e = true -> cre e (x, yq) = 0%Z.
  Proof.
    unfold disjointb. rewrite !orb_true_iff. intros H.
    pose proof yq_in as Hin.
    unfold cre, cr, IP. cbn [fst snd].
    set (X := xat _ _ _). clearbody X.
    assert (Hc : IZR (py (fst e)) = IZR (py (snd e))
                 \/ (IZR (py (fst e)) <= Q2R y0 /\ IZR (py (snd e)) <= Q2R y0)
                 \/ (Q2R y1 <= IZR (py (fst e)) /\ Q2R y1 <= IZR (py (snd e)))).
    { destruct H as [[H|H]|H].
      - left. unfold horiz in H. apply Z.eqb_eq in H. rewrite H. reflexivity.
      - right; left. apply Qle_bool_R in H. rewrite Q2R_zq in H. unfold yhi in H.
        pose proof (IZR_le _ _ (Z.le_max_l (py (fst e)) (py (snd e)))).
        pose proof (IZR_le _ _ (Z.le_max_r (py (fst e)) (py (snd e)))).
        split; lra.
      - right; right. apply Qle_bool_R in H. rewrite Q2R_zq in H. unfold ylo in H.
        pose proof (IZR_le _ _ (Z.le_min_l (py (fst e)) (py (snd e)))).
        pose proof (IZR_le _ _ (Z.le_min_r (py (fst e)) (py (snd e)))).
        split; lra. }
    destruct (Rle_dec (IZR (py (fst e))) yq) as [H1|H1].
    - destruct (Rlt_dec yq (IZR (py (snd e)))) as [H2|H2]; [|reflexivity].
      exfalso. lra.
    - destruct (Rle_dec (IZR (py (snd e))) yq) as [H2|H2]; [|reflexivity].
      exfalso. lra.
  Qed.

  Lemma wnk_items Es k :
    forallb (fun te => spanning y0 y1 (snd te) || disjointb y0 y1 (snd te)) Es = true ->
    wnk Es k (x, yq) =
    zsum (map (ctr k) (map (mk_item y0 y1) (filter (fun te => spanning y0 y1 (snd te)) Es))).
  Proof.
    unfold wnk. induction Es as [|te Es IH]; intros Hall; [reflexivity|].
    cbn [forallb] in Hall. apply andb_true_iff in Hall. destruct Hall as [Hte Hall].
    specialize (IH Hall).
    cbn [map filter]. rewrite zsum_cons, IH.
    destruct (spanning y0 y1 (snd te)) eqn:Hsp.
    - cbn [map]. rewrite zsum_cons. f_equal.
      unfold ctr at 1. destruct te as [t e]. cbn [fst snd] in *.
      change (itag (mk_item y0 y1 (t, e))) with t.
      change (idir (mk_item y0 y1 (t, e))) with (edir e).
      destruct (Nat.eqb t k); [|reflexivity].
      apply cre_spanning. exact Hsp.
    - cbn [orb] in Hte. rewrite (cre_disjoint _ Hte).
      destruct (Nat.eqb (fst te) k); reflexivity.
  Qed.

  Definition xle (a b : item) : Prop := xq a <= xq b.

  Lemma adj_sorted l : adj_ok l = true -> StronglySorted xle l.
  Proof.
    intros H. apply Sorted_StronglySorted.
    { intros a b c. unfold xle. lra. }
    induction l as [|a l IH]; [constructor|].
    destruct l as [|b l]; [repeat constructor|].
    cbn [adj_ok] in H. rewrite !andb_true_iff in H. destruct H as [[H0 H1] Hr].
    constructor; [apply IH; exact Hr|].
    constructor. unfold xle, xq.
    apply Qle_bool_R in H0. apply Qle_bool_R in H1.
    assert (0 <= (1 - s) * (Q2R (ix0 b) - Q2R (ix0 a))) by (apply Rmult_le_pos; lra).
    assert (0 <= s * (Q2R (ix1 b) - Q2R (ix1 a))) by (apply Rmult_le_pos; lra).
    lra.
  Qed.

  Variables (f : list Z -> bool) (fuel : nat) (rm : Z) (E : list edge) (r2 : Q) (n : nat).
  Hypothesis Hfar : far E (Q2R r2) (x, yq).

  Lemma cell_contra p it :
    xq p < x -> x <= xq it -> cell_ok fuel rm E r2 y0 y1 p it = true -> False.
  Proof.
    intros Hp Hit Hc. unfold cell_ok in Hc. apply orb_true_iff in Hc.
    destruct Hc as [Hd|Hcov].
    - apply andb_true_iff in Hd. destruct Hd as [H0 H1].
      apply Qeq_bool_R in H0. apply Qeq_bool_R in H1.
      unfold xq in *. rewrite H0, H1 in Hp. lra.
    - apply (cover_sound _ _ _ _ _ (x, yq) Hcov); [|exact Hfar].
      exists s, ((x - xq p) / (xq it - xq p)).
      cbn [ty0 ty1 xl0 xl1 xr0 xr1 fst snd].
      split; [lra|]. split; [apply div_bounds; lra|].
      split; [exact Hyq|].
      fold (xq p). fold (xq it).
      set (A := xq p) in *. set (B := xq it) in *. clearbody A B.
      field. lra.
  Qed.

  Lemma walk_inv : forall l vec prev,
    walk f fuel rm E r2 y0 y1 vec prev l = true ->
    length vec = n ->
    Forall (fun it => (itag it < n)%nat) l ->
    StronglySorted xle l ->
    (forall p, prev = Some p -> xq p < x) ->
    forall v, length v = n ->
      (forall k, (k < n)%nat -> nth k v 0%Z = (nth k vec 0 + zsum (map (ctr k) l))%Z) ->
      f v = true.
  Proof.
    induction l as [|it tl IH]; intros vec prev Hw Hlen Htag Hsort Hprev v Hv Hnth.
    - cbn [walk] in Hw. replace v with vec; [exact Hw|].
      apply nth_ext with (d := 0%Z) (d' := 0%Z); [lia|].
      intros k Hk. rewrite Hnth by lia. cbn [map]. unfold zsum; cbn [fold_right]. lia.
    - cbn [walk] in Hw. apply andb_true_iff in Hw. destruct Hw as [Hc Hw].
      pose proof (Forall_inv Htag) as Ht. pose proof (Forall_inv_tail Htag) as Htag'.
      cbv beta in Ht.
      destruct (StronglySorted_inv Hsort) as [Hsort' Hall].
      destruct (Rlt_dec (xq it) x) as [Hlt|Hge].
      + apply (IH (vadd (itag it) (idir it) vec) (Some it)); auto.
        * rewrite vadd_length. exact Hlen.
        * intros p Hp. inversion Hp; subst. exact Hlt.
        * intros k Hk. rewrite Hnth by exact Hk.
          rewrite nth_vadd by lia. cbn [map]. rewrite zsum_cons.
          unfold ctr at 1. destruct (Rlt_dec (xq it) x); [|contradiction].
          destruct (Nat.eqb (itag it) k); lia.
      + assert (Hz : forall k, zsum (map (ctr k) (it :: tl)) = 0%Z).
        { intros k. apply zsum_zero. intros a Ha.
          assert (Hxa : xq it <= xq a).
          { destruct Ha as [Ha|Ha]; [subst; lra|].
            rewrite Forall_forall in Hall. apply (Hall a Ha). }
          unfold ctr. destruct (Nat.eqb (itag a) k); [|reflexivity].
          destruct (Rlt_dec (xq a) x); [exfalso; lra|reflexivity]. }
        replace v with vec.
        2:{ apply nth_ext with (d := 0%Z) (d' := 0%Z); [lia|].
            intros k Hk. rewrite Hnth by lia. rewrite Hz. lia. }
        apply orb_true_iff in Hc. destruct Hc as [Hc|Hc]; [exact Hc|].
        destruct prev as [p|]; [|discriminate].
        exfalso. apply (cell_contra p it); auto. lra.
  Qed.

End Slab.

Theorem slab_sound : cover_sound_stmt -> slab_sound_stmt.
Proof.
  intros CS n Es E r2 rm fuel f y0 y1 [x yq] Hchk Hq Hfar. cbn [fst snd] in Hq.
  unfold slab_check in Hchk.
  apply andb_true_iff in Hchk. destruct Hchk as [Hchk H45].
  apply andb_true_iff in Hchk. destruct Hchk as [Hchk Htags].
  apply andb_true_iff in Hchk. destruct Hchk as [Hy Hcls].
  cbv zeta in H45. apply andb_true_iff in H45. destruct H45 as [Hadj Hwalk].
  assert (HY : Q2R y0 < Q2R y1).
  { apply Qlt_Rlt. apply Qnot_le_lt. intro Hle. apply Qle_bool_iff in Hle.
    rewrite Hle in Hy. discriminate. }
  set (s := (yq - Q2R y0) / (Q2R y1 - Q2R y0)).
  assert (Hyq : yq = (1 - s) * Q2R y0 + s * Q2R y1) by (unfold s; field; lra).
  assert (Hs : 0 <= s < 1).
  { destruct (div_bounds (yq - Q2R y0) (Q2R y1 - Q2R y0)) as [Ha Hb]; [lra|lra|].
    fold s in Ha, Hb. split; [exact Ha|].
    destruct Hb as [Hb|Hb]; [exact Hb|]. exfalso. rewrite Hb in Hyq. lra. }
  clearbody s.
  set (items0 := map (mk_item y0 y1) (filter (fun te => spanning y0 y1 (snd te)) Es)) in *.
  pose proof (sort_items_perm items0) as Hperm.
  apply (walk_inv CS y0 y1 s x yq Hs Hyq f fuel rm E r2 n Hfar
                  (sort_items items0) (repeat 0%Z n) None Hwalk).
  - apply repeat_length.
  - apply Forall_forall. intros it Hit.
    apply (Permutation_in _ (Permutation_sym Hperm)) in Hit.
    unfold items0 in Hit. apply in_map_iff in Hit. destruct Hit as [te [Hte Hin]].
    apply filter_In in Hin. destruct Hin as [Hin _].
    rewrite forallb_forall in Htags. specialize (Htags te Hin).
    apply Nat.ltb_lt in Htags. subst it. exact Htags.
  - apply adj_sorted; [exact Hs|exact Hadj].
  - intros p Hp. discriminate.
  - unfold wnvec. rewrite map_length, seq_length. reflexivity.
  - intros k Hk. unfold wnvec. rewrite nth_map_seq by exact Hk.
    rewrite nth_repeat0.
    rewrite (wnk_items y0 y1 s x yq Hs HY Hyq Es k Hcls).
    fold items0. rewrite (zsum_perm _ _ _ Hperm). lia.
Qed.

Print Assumptions slab_sound.
