(* Cert/Region.v — the executable region checker (definitions only).
   Exact rational arithmetic; an untrusted certificate supplies the slab
   boundaries.  Soundness (every REAL point) is proved in RegionSound.v. *)
From Coq Require Import QArith ZArith List Bool Mergesort Orders.
From Clip Require Import Base.Int64 Model.Arith Base.Geom.
Import ListNotations.
Open Scope Q_scope.

Definition qpt : Type := (Q * Q)%type.

Definition zq (z : Z) : Q := inject_Z z.

Definition ylo (e : edge) : Z := Z.min (py (fst e)) (py (snd e)).
Definition yhi (e : edge) : Z := Z.max (py (fst e)) (py (snd e)).
Definition horiz (e : edge) : bool := (py (fst e) =? py (snd e))%Z.
(* upward edges count -1, downward +1 (as Geom.cr) *)
Definition edir (e : edge) : Z := if (py (fst e) <? py (snd e))%Z then (-1)%Z else 1%Z.

(* x of the (non-horizontal) edge at height y *)
Definition xatQ (e : edge) (y : Q) : Q :=
  let ax := zq (px (fst e)) in
  let ay := zq (py (fst e)) in
  let bx := zq (px (snd e)) in
  let by_ := zq (py (snd e)) in
  Qred (ax + (y - ay) * (bx - ax) / (by_ - ay)).

Record item := mkItem { ix0 : Q; ix1 : Q; itag : nat; idir : Z }.

Definition spanning (y0 y1 : Q) (e : edge) : bool :=
  negb (horiz e) && Qle_bool (zq (ylo e)) y0 && Qle_bool y1 (zq (yhi e)).
Definition disjointb (y0 y1 : Q) (e : edge) : bool :=
  horiz e || Qle_bool (zq (yhi e)) y0 || Qle_bool y1 (zq (ylo e)).

Definition mk_item (y0 y1 : Q) (te : nat * edge) : item :=
  mkItem (xatQ (snd te) y0) (xatQ (snd te) y1) (fst te) (edir (snd te)).

(* sort by x0 + x1 (twice the mid-slab abscissa) *)
Module ItemOrder <: TotalLeBool.
  Definition t := (Q * item)%type.
  Definition leb (a b : t) : bool := Qle_bool (fst a) (fst b).
  Theorem leb_total : forall a b, leb a b = true \/ leb b a = true.
  Proof.
    intros a b. unfold leb. rewrite !Qle_bool_iff.
    destruct (Qlt_le_dec (fst a) (fst b)) as [H|H]; [left; apply Qlt_le_weak; exact H|right; exact H].
  Qed.
End ItemOrder.
Module ItemSort := Sort ItemOrder.

Definition sort_items (l : list item) : list item :=
  map snd (ItemSort.sort (map (fun it => (Qred (ix0 it + ix1 it), it)) l)).

Fixpoint adj_ok (l : list item) : bool :=
  match l with
  | a :: ((b :: _) as tl) => Qle_bool (ix0 a) (ix0 b) && Qle_bool (ix1 a) (ix1 b) && adj_ok tl
  | _ => true
  end.

Fixpoint vadd (k : nat) (d : Z) (v : list Z) : list Z :=
  match v, k with
  | [], _ => []
  | x :: t, O => (x + d)%Z :: t
  | x :: t, S k' => x :: vadd k' d t
  end.

(* ---- cover: a closed trapezoid lies inside the band around E ---- *)
Record trap := mkTrap { ty0 : Q; ty1 : Q; xl0 : Q; xl1 : Q; xr0 : Q; xr1 : Q }.

(* is the rational point c within sqrt r2 of the segment e ? (clamped projection) *)
Definition near_segQ (e : edge) (r2 : Q) (c : qpt) : bool :=
  let ax := zq (px (fst e)) in
  let ay := zq (py (fst e)) in
  let dx := zq (px (snd e) - px (fst e)) in
  let dy := zq (py (snd e) - py (fst e)) in
  let L := dx * dx + dy * dy in
  let p := (fst c - ax) * dx + (snd c - ay) * dy in
  let t := if Qle_bool p 0 then 0 else if Qle_bool L p then 1 else Qred (p / L) in
  let ex := fst c - (ax + t * dx) in
  let ey := snd c - (ay + t * dy) in
  Qle_bool (ex * ex + ey * ey) r2.

Definition corners (T : trap) : list qpt :=
  [(xl0 T, ty0 T); (xl1 T, ty1 T); (xr0 T, ty0 T); (xr1 T, ty1 T)].

(* cheap, unverified-on-purpose prefilter: any filter is sound, it can only
   make the checker accept less *)
Definition bbox_near (rm : Z) (e : edge) (c : qpt) : bool :=
  Qle_bool (zq (Z.min (px (fst e)) (px (snd e)) - rm)) (fst c) &&
  Qle_bool (fst c) (zq (Z.max (px (fst e)) (px (snd e)) + rm)) &&
  Qle_bool (zq (ylo e - rm)) (snd c) &&
  Qle_bool (snd c) (zq (yhi e + rm)).

Definition near4 (rm : Z) (r2 : Q) (T : trap) (e : edge) : bool :=
  forallb (bbox_near rm e) (corners T) && forallb (near_segQ e r2) (corners T).

Definition half (a b : Q) : Q := Qred ((a + b) / 2).

(* the four sub-cells of the bilinear parametrisation, split at s = 1/2, u = 1/2 *)
Definition split4 (T : trap) : list trap :=
  let ym := half (ty0 T) (ty1 T) in
  let lm := half (xl0 T) (xl1 T) in
  let rmid := half (xr0 T) (xr1 T) in
  let m0 := half (xl0 T) (xr0 T) in
  let m1 := half (xl1 T) (xr1 T) in
  let mm := half lm rmid in
  [ mkTrap (ty0 T) ym (xl0 T) lm m0 mm;
    mkTrap (ty0 T) ym m0 mm (xr0 T) rmid;
    mkTrap ym (ty1 T) lm (xl1 T) mm m1;
    mkTrap ym (ty1 T) mm m1 rmid (xr1 T) ].

Fixpoint cover (fuel : nat) (rm : Z) (E : list edge) (r2 : Q) (T : trap) : bool :=
  existsb (near4 rm r2 T) E ||
  match fuel with
  | O => false
  | S f => forallb (cover f rm E r2) (split4 T)
  end.

Section Walk.
  Variable f : list Z -> bool.
  Variable fuel : nat.
  Variable rm : Z.
  Variable E : list edge.
  Variable r2 : Q.
  Variables y0 y1 : Q.

  Definition cell_ok (p it : item) : bool :=
    (Qeq_bool (ix0 p) (ix0 it) && Qeq_bool (ix1 p) (ix1 it)) ||
    cover fuel rm E r2 (mkTrap y0 y1 (ix0 p) (ix1 p) (ix0 it) (ix1 it)).

  Fixpoint walk (vec : list Z) (prev : option item) (l : list item) : bool :=
    match l with
    | [] => f vec
    | it :: tl =>
        (f vec || match prev with None => false | Some p => cell_ok p it end)
        && walk (vadd (itag it) (idir it) vec) (Some it) tl
    end.
End Walk.

Definition slab_check (n : nat) (Es : list (nat * edge)) (E : list edge) (r2 : Q)
           (rm : Z) (fuel : nat) (f : list Z -> bool) (y0 y1 : Q) : bool :=
  negb (Qle_bool y1 y0) &&
  forallb (fun te => spanning y0 y1 (snd te) || disjointb y0 y1 (snd te)) Es &&
  forallb (fun te => (fst te <? n)%nat) Es &&
  let items := sort_items (map (mk_item y0 y1) (filter (fun te => spanning y0 y1 (snd te)) Es)) in
  adj_ok items && walk f fuel rm E r2 y0 y1 (repeat 0%Z n) None items.

Fixpoint slabs_check (n : nat) (Es : list (nat * edge)) (E : list edge) (r2 : Q)
         (rm : Z) (fuel : nat) (f : list Z -> bool) (y0 : Q) (Y : list Q) : bool :=
  match Y with
  | [] => true
  | y1 :: Y' => slab_check n Es E r2 rm fuel f y0 y1 && slabs_check n Es E r2 rm fuel f y1 Y'
  end.

Definition within_bounds (ya yb : Q) (e : edge) : bool :=
  horiz e || (Qle_bool ya (zq (ylo e)) && Qle_bool (zq (yhi e)) yb).

Definition region_check_tagged (n : nat) (Es : list (nat * edge)) (E : list edge) (r2 : Q)
           (rm : Z) (fuel : nat) (f : list Z -> bool) (Y : list Q) : bool :=
  match Y with
  | [] => false
  | ya :: Y' =>
      f (repeat 0%Z n) &&
      forallb (fun te => within_bounds ya (last Y' ya) (snd te)) Es &&
      slabs_check n Es E r2 rm fuel f ya Y'
  end.

Fixpoint tag_all (k : nat) (Ps : list paths) : list (nat * edge) :=
  match Ps with
  | [] => []
  | P :: tl => map (fun e => (k, e)) (edges_of_paths P) ++ tag_all (S k) tl
  end.

Definition region_check (Ps : list paths) (E : list edge) (r2 : Q) (rm : Z) (fuel : nat)
           (f : list Z -> bool) (Y : list Q) : bool :=
  region_check_tagged (length Ps) (tag_all 0 Ps) E r2 rm fuel f Y.

(* ---- diagnostics (not part of any theorem): first failing cell ---- *)
(* a point of the deepest uncovered sub-cell: a corner that is within the band of no edge, else its centre *)
Definition trap_centre (T : trap) : qpt :=
  (half (half (xl0 T) (xr0 T)) (half (xl1 T) (xr1 T)), half (ty0 T) (ty1 T)).
Fixpoint first_some {A B : Type} (f : A -> option B) (l : list A) : option B :=
  match l with
  | [] => None
  | x :: t => match f x with Some y => Some y | None => first_some f t end
  end.
Fixpoint cover_diag (fuel : nat) (rm : Z) (E : list edge) (r2 : Q) (T : trap) : option qpt :=
  if existsb (near4 rm r2 T) E then None else
  match fuel with
  | O => Some (match filter (fun c => negb (existsb (fun e => near_segQ e r2 c) E)) (corners T) with
               | c :: _ => c
               | [] => trap_centre T
               end)
  | S f => first_some (cover_diag f rm E r2) (split4 T)
  end.

Section Diag.
  Variable f : list Z -> bool.
  Variable fuel : nat.
  Variable rm : Z.
  Variable E : list edge.
  Variable r2 : Q.
  Variables y0 y1 : Q.
  Fixpoint walk_diag (vec : list Z) (prev : option item) (l : list item) : option (qpt * list Z) :=
    match l with
    | [] => if f vec then None else
              Some ((match prev with Some p => half (ix0 p) (ix1 p) + 1000 | None => 0 end, half y0 y1), vec)
    | it :: tl =>
        if (f vec || match prev with None => false | Some p => cell_ok fuel rm E r2 y0 y1 p it end)
        then walk_diag (vadd (itag it) (idir it) vec) (Some it) tl
        else Some (match prev with
                   | Some p =>
                       match cover_diag fuel rm E r2 (mkTrap y0 y1 (ix0 p) (ix1 p) (ix0 it) (ix1 it)) with
                       | Some c => c
                       | None => (half (half (ix0 p) (ix1 p)) (half (ix0 it) (ix1 it)), half y0 y1)
                       end
                   | None => (half (ix0 it) (ix1 it) - 1000, half y0 y1) end, vec)
    end.
End Diag.

Definition slab_diag (n : nat) (Es : list (nat * edge)) (E : list edge) (r2 : Q)
           (rm : Z) (fuel : nat) (f : list Z -> bool) (y0 y1 : Q) : option (qpt * list Z) :=
  let items := sort_items (map (mk_item y0 y1) (filter (fun te => spanning y0 y1 (snd te)) Es)) in
  walk_diag f fuel rm E r2 y0 y1 (repeat 0%Z n) None items.

Fixpoint slabs_diag (n : nat) (Es : list (nat * edge)) (E : list edge) (r2 : Q)
         (rm : Z) (fuel : nat) (f : list Z -> bool) (y0 : Q) (Y : list Q) : option (qpt * list Z) :=
  match Y with
  | [] => None
  | y1 :: Y' =>
      if slab_check n Es E r2 rm fuel f y0 y1 then slabs_diag n Es E r2 rm fuel f y1 Y'
      else match slab_diag n Es E r2 rm fuel f y0 y1 with
           | Some d => Some d
           | None => Some ((0, half y0 y1), [])   (* structural failure of the certificate *)
           end
  end.

Definition region_diag (Ps : list paths) (E : list edge) (r2 : Q) (rm : Z) (fuel : nat)
           (f : list Z -> bool) (Y : list Q) : option (qpt * list Z) :=
  match Y with
  | [] => Some ((0, 0), [])
  | ya :: Y' => slabs_diag (length Ps) (tag_all 0 Ps) E r2 rm fuel f ya Y'
  end.

(* ---- the decision functions f of the individual properties ---- *)
Definition nth0 (v : list Z) (k : nat) : Z := nth k v 0%Z.

Definition f_c01 (ct : cliptype) (fr : fillrule) (v : list Z) : bool :=
  Bool.eqb (Z.odd (nth0 v 2)) (expected ct (filled fr (nth0 v 0)) (filled fr (nth0 v 1))).

(* C02: winding of the solution is 0 or s *)
Definition f_c02 (s : Z) (v : list Z) : bool :=
  (nth0 v 0 =? 0)%Z || (nth0 v 0 =? s)%Z.
