(* Cert/LineSound.v — soundness of the open-segment checker of Cert/Line.v:
   for EVERY real parameter t of the subject segment a-b whose point is far
   from the closed edges, "t is covered by the open solution" agrees with the
   decision function g applied to the winding vector at that point. *)
From Coq Require Import Reals QArith Qreals ZArith List Bool Lra Lia Psatz.
From Clip Require Import Base.Int64 Model.Arith Base.Geom Cert.Region Cert.RegionSpec
  Cert.CoverSound Cert.SlabSound Cert.RegionTop Cert.RectLine Cert.RectLineSound Cert.Line.
Import ListNotations.
Open Scope R_scope.

Definition covered_by (cov : list (Q * Q)) (t : R) : Prop :=
  exists lo hi, In (lo, hi) cov /\ (Q2R lo <= t <= Q2R hi)%R.

(* ------------------------------------------------------------------ *)
(* 1. pieces and chains of pieces                                       *)

Lemma seg_pt_convex : forall a b lo hi l t,
  t = (1 - l) * lo + l * hi ->
  seg_pt a b t = ((1 - l) * fst (seg_pt a b lo) + l * fst (seg_pt a b hi),
                  (1 - l) * snd (seg_pt a b lo) + l * snd (seg_pt a b hi)).
Proof. intros a b lo hi l t ->. unfold seg_pt. cbn [fst snd]. f_equal; ring. Qed.

Lemma near_both_sound : forall a b E r2 s0 s1 t,
  near_both a b E r2 s0 s1 = true -> Q2R s0 <= t <= Q2R s1 ->
  ~ far E (Q2R r2) (seg_pt a b t).
Proof.
  intros a b E r2 s0 s1 t H Ht Hfar. unfold near_both in H. apply existsb_exists in H.
  destruct H as [e [He H]]. apply andb_true_iff in H. destruct H as [H0 H1].
  apply near_segQ_sound in H0. apply near_segQ_sound in H1.
  rewrite QP_q_at in H0, H1.
  destruct (convex_param _ _ _ Ht) as [l [Hl Et]].
  apply (Hfar e He). rewrite (seg_pt_convex a b _ _ l t Et).
  apply near_seg_convex; assumption.
Qed.

Definition piece_spec (a b : pt) (E : list edge) (r2 : Q) (cov : list (Q * Q))
           (want : bool) (s0 s1 : Q) : Prop :=
  forall t, Q2R s0 <= t <= Q2R s1 -> far E (Q2R r2) (seg_pt a b t) ->
            (covered_by cov t <-> want = true).

Lemma piece_test_sound : forall a b E r2 cov want s0 s1,
  piece_test a b E r2 cov want s0 s1 = true -> piece_spec a b E r2 cov want s0 s1.
Proof.
  intros a b E r2 cov want s0 s1 H t Ht Hfar. unfold piece_test in H.
  apply orb_true_iff in H.
  destruct H as [H|H]; [|exfalso; exact (near_both_sound _ _ _ _ _ _ _ H Ht Hfar)].
  destruct want.
  - apply existsb_exists in H. destruct H as [[lo hi] [HJ H]]. cbn [fst snd] in H.
    apply andb_true_iff in H. destruct H as [H1 H2].
    apply Qle_bool_true_le in H1. apply Qle_bool_true_le in H2.
    split; [intros _; reflexivity|]. intros _. exists lo, hi. split; [exact HJ|lra].
  - split; [|discriminate]. intros [lo [hi [HJ Hc]]]. exfalso.
    rewrite forallb_forall in H. specialize (H _ HJ). cbn [fst snd] in H.
    apply orb_true_iff in H.
    destruct H as [H|H]; apply negb_true_iff in H; apply Qle_bool_false_lt in H; lra.
Qed.

Lemma piece_ok_sound : forall a b E r2 cov want fuel s0 s1,
  piece_ok a b E r2 cov want fuel s0 s1 = true -> piece_spec a b E r2 cov want s0 s1.
Proof.
  intros a b E r2 cov want fuel.
  induction fuel as [|f IH]; intros s0 s1 H.
  - cbn [piece_ok] in H. rewrite orb_false_r in H. apply piece_test_sound; exact H.
  - cbn [piece_ok] in H. apply orb_true_iff in H.
    destruct H as [H|H]; [apply piece_test_sound; exact H|].
    cbv zeta in H. apply andb_true_iff in H. destruct H as [Ha Hb].
    apply IH in Ha. apply IH in Hb. intros t Ht Hfar.
    destruct (Rle_lt_dec t (Q2R (Qred ((s0 + s1) / 2)))) as [Hm|Hm].
    + apply Ha; [lra|exact Hfar].
    + apply Hb; [lra|exact Hfar].
Qed.

Lemma chain_ok_strict : forall a b E r2 cov want fuel l s0,
  chain_ok a b E r2 cov want fuel s0 l = true ->
  forall t, Q2R s0 < t <= Q2R (last l s0) -> far E (Q2R r2) (seg_pt a b t) ->
            (covered_by cov t <-> want = true).
Proof.
  intros a b E r2 cov want fuel.
  induction l as [|s1 l IH]; intros s0 H t Ht Hfar.
  - cbn [last] in Ht. exfalso. lra.
  - cbn [chain_ok] in H. apply andb_true_iff in H. destruct H as [H Hc].
    apply andb_true_iff in H. destruct H as [Hle Hp].
    rewrite last_cons_default in Ht.
    destruct (Rle_lt_dec t (Q2R s1)) as [H1|H1].
    + apply (piece_ok_sound _ _ _ _ _ _ _ _ _ Hp); [lra|exact Hfar].
    + apply (IH s1 Hc); [lra|exact Hfar].
Qed.

Lemma chain_ok_sound : forall a b E r2 cov want fuel l s0,
  chain_ok a b E r2 cov want fuel s0 l = true -> l <> [] ->
  forall t, Q2R s0 <= t <= Q2R (last l s0) -> far E (Q2R r2) (seg_pt a b t) ->
            (covered_by cov t <-> want = true).
Proof.
  intros a b E r2 cov want fuel l s0 H Hne t Ht Hfar.
  destruct (Rle_lt_dec t (Q2R s0)) as [H0|H0].
  - destruct l as [|s1 l]; [contradiction|].
    cbn [chain_ok] in H. apply andb_true_iff in H. destruct H as [H Hc].
    apply andb_true_iff in H. destruct H as [Hle Hp].
    apply Qle_bool_true_le in Hle.
    apply (piece_ok_sound _ _ _ _ _ _ _ _ _ Hp); [lra|exact Hfar].
  - apply (chain_ok_strict _ _ _ _ _ _ _ _ _ H); [lra|exact Hfar].
Qed.

(* ------------------------------------------------------------------ *)
(* 2. the exact pointwise evaluator                                     *)

Lemma cre_up : forall e q,
  IZR (py (fst e)) <= snd q < IZR (py (snd e)) ->
  cre e q = if Rlt_dec (xat (IP (fst e)) (IP (snd e)) (snd q)) (fst q) then (-1)%Z else 0%Z.
Proof.
  intros e q H. unfold cre, cr.
  change (snd (IP (fst e))) with (IZR (py (fst e))).
  change (snd (IP (snd e))) with (IZR (py (snd e))).
  destruct (Rle_dec (IZR (py (fst e))) (snd q)) as [H1|H1]; [|exfalso; lra].
  destruct (Rlt_dec (snd q) (IZR (py (snd e)))) as [H2|H2]; [|exfalso; lra].
  reflexivity.
Qed.

Lemma cre_down : forall e q,
  IZR (py (snd e)) <= snd q < IZR (py (fst e)) ->
  cre e q = if Rlt_dec (xat (IP (fst e)) (IP (snd e)) (snd q)) (fst q) then 1%Z else 0%Z.
Proof.
  intros e q H. unfold cre, cr.
  change (snd (IP (fst e))) with (IZR (py (fst e))).
  change (snd (IP (snd e))) with (IZR (py (snd e))).
  destruct (Rle_dec (IZR (py (fst e))) (snd q)) as [H1|H1]; [exfalso; lra|].
  destruct (Rle_dec (IZR (py (snd e))) (snd q)) as [H2|H2]; [|exfalso; lra].
  reflexivity.
Qed.

Lemma cre_none : forall e q,
  ~ (IZR (py (fst e)) <= snd q < IZR (py (snd e))) ->
  ~ (IZR (py (snd e)) <= snd q < IZR (py (fst e))) ->
  cre e q = 0%Z.
Proof.
  intros e q Hu Hd. unfold cre, cr.
  change (snd (IP (fst e))) with (IZR (py (fst e))).
  change (snd (IP (snd e))) with (IZR (py (snd e))).
  destruct (Rle_dec (IZR (py (fst e))) (snd q)) as [H1|H1].
  - destruct (Rlt_dec (snd q) (IZR (py (snd e)))) as [H2|H2]; [exfalso; lra|reflexivity].
  - destruct (Rle_dec (IZR (py (snd e))) (snd q)) as [H2|H2]; [exfalso; lra|reflexivity].
Qed.

Lemma IZR_neq_py : forall e : edge,
  IZR (py (fst e)) <> IZR (py (snd e)) -> py (fst e) <> py (snd e).
Proof. intros e H Heq. apply H. rewrite Heq. reflexivity. Qed.

Ltac qb H :=
  first [apply Qle_bool_true_le in H | apply Qle_bool_false_lt in H];
  rewrite ?Q2R_zq in H.

Lemma crQ_correct : forall e c, crQ e c = cre e (QP c).
Proof.
  intros e c. unfold crQ. cbv zeta.
  destruct (Qle_bool (zq (py (fst e))) (snd c)) eqn:Ha;
  destruct (Qle_bool (zq (py (snd e))) (snd c)) eqn:Hb; cbn [andb negb];
  qb Ha; qb Hb.
  - symmetry. apply cre_none; unfold QP; cbn [snd]; lra.
  - rewrite cre_up by (unfold QP; cbn [snd]; lra).
    unfold QP. cbn [fst snd].
    rewrite <- xatQ_R by (apply IZR_neq_py; lra).
    destruct (Qle_bool (fst c) (xatQ e (snd c))) eqn:Hx; qb Hx; cbn [negb];
    destruct (Rlt_dec (Q2R (xatQ e (snd c))) (Q2R (fst c))) as [H|H];
    try reflexivity; exfalso; lra.
  - rewrite cre_down by (unfold QP; cbn [snd]; lra).
    unfold QP. cbn [fst snd].
    rewrite <- xatQ_R by (apply IZR_neq_py; lra).
    destruct (Qle_bool (fst c) (xatQ e (snd c))) eqn:Hx; qb Hx; cbn [negb];
    destruct (Rlt_dec (Q2R (xatQ e (snd c))) (Q2R (fst c))) as [H|H];
    try reflexivity; exfalso; lra.
  - symmetry. apply cre_none; unfold QP; cbn [snd]; lra.
Qed.

Lemma wnvecQ_correct : forall n Es c, wnvecQ n Es c = wnvec n Es (QP c).
Proof.
  intros n Es c. unfold wnvecQ, wnvec. apply map_ext. intros k.
  unfold wnkQ, wnk. f_equal. apply map_ext. intros te.
  rewrite crQ_correct. reflexivity.
Qed.

Lemma point_ok_sound : forall n Es E r2 g cov a b tq,
  point_ok n Es E r2 g cov a b tq = true ->
  far E (Q2R r2) (seg_pt a b (Q2R tq)) ->
  (covered_by cov (Q2R tq) <-> g (wnvec n Es (seg_pt a b (Q2R tq))) = true).
Proof.
  intros n Es E r2 g cov a b tq H Hfar. unfold point_ok in H. cbv zeta in H.
  apply orb_true_iff in H. destruct H as [H|H].
  - exfalso. unfold near_anyQ in H. apply existsb_exists in H.
    destruct H as [e [He H]]. apply near_segQ_sound in H. rewrite QP_q_at in H.
    exact (Hfar e He H).
  - apply eqb_prop in H. rewrite wnvecQ_correct, QP_q_at in H. rewrite <- H.
    split.
    + intros [lo [hi [HJ [H1 H2]]]]. apply existsb_exists. exists (lo, hi).
      split; [exact HJ|]. cbn [fst snd].
      rewrite (Qle_bool_of_Rle _ _ H1), (Qle_bool_of_Rle _ _ H2). reflexivity.
    + intros Hex. apply existsb_exists in Hex. destruct Hex as [[lo hi] [HJ Hc]].
      cbn [fst snd] in Hc. apply andb_true_iff in Hc. destruct Hc as [H1 H2].
      qb H1. qb H2. exists lo, hi. split; [exact HJ|lra].
Qed.

(* ------------------------------------------------------------------ *)
(* 3. an upward segment inside one slab                                 *)

(* a point of the supporting line of a non-horizontal edge, at a height within the
   edge's y-range, lies ON the edge: it is near it for every radius >= 0 *)
Lemma on_edge : forall (e : edge) (x y r : R),
  (IZR (py (fst e)) <= y <= IZR (py (snd e)) \/ IZR (py (snd e)) <= y <= IZR (py (fst e))) ->
  IZR (py (fst e)) <> IZR (py (snd e)) ->
  xat (IP (fst e)) (IP (snd e)) y = x -> 0 <= r ->
  near_seg (IP (fst e)) (IP (snd e)) (x, y) r.
Proof.
  intros e x y r Hb Hne Hx Hr.
  destruct (param_range _ _ _ Hne Hb) as [u [Hu Ey]].
  exists u. split; [exact Hu|].
  subst x. unfold dist2_at, xat, IP. cbn [fst snd].
  set (ax := IZR (px (fst e))) in *. set (ay := IZR (py (fst e))) in *.
  set (bx := IZR (px (snd e))) in *. set (by_ := IZR (py (snd e))) in *.
  clearbody ax ay bx by_.
  assert (Hd : by_ - ay <> 0) by (intro Hz; apply Hne; lra).
  subst y.
  match goal with |- ?L <= _ => replace L with 0; [exact Hr|] end.
  field. exact Hd.
Qed.

Lemma seg_pt_xat : forall a b t, (py a < py b)%Z ->
  xat (IP a) (IP b) (snd (seg_pt a b t)) = fst (seg_pt a b t).
Proof.
  intros a b t H. apply IZR_lt in H. unfold xat, seg_pt, IP. cbn [fst snd].
  rewrite !minus_IZR. field. lra.
Qed.

Lemma spanning_range : forall y0 y1 e,
  spanning y0 y1 e = true ->
  IZR (py (fst e)) <> IZR (py (snd e)) /\
  ((IZR (py (fst e)) <= Q2R y0 /\ Q2R y1 <= IZR (py (snd e))) \/
   (IZR (py (snd e)) <= Q2R y0 /\ Q2R y1 <= IZR (py (fst e)))).
Proof.
  intros y0 y1 e H. unfold spanning in H.
  rewrite !andb_true_iff, negb_true_iff in H. destruct H as [[Hh Hlo] Hhi].
  unfold horiz in Hh. apply Z.eqb_neq in Hh.
  qb Hlo. qb Hhi. unfold ylo in Hlo. unfold yhi in Hhi.
  split; [intro Heq; apply Hh; apply eq_IZR; exact Heq|].
  destruct (Z.ltb_spec (py (fst e)) (py (snd e))) as [Hlt|Hge].
  - rewrite Z.min_l in Hlo by lia. rewrite Z.max_r in Hhi by lia. left. split; assumption.
  - rewrite Z.min_r in Hlo by lia. rewrite Z.max_l in Hhi by lia. right. split; assumption.
Qed.

Definition side_ok (s x : R) (sx0 sx1 : Q) (it : item) : Prop :=
  match classify sx0 sx1 it with
  | SLeft => xq s it < x
  | SRight => x <= xq s it
  | SOn => x <= xq s it
  | SCross => False
  end.

Definition lv_step (sx0 sx1 : Q) (v : list Z) (it : item) : list Z :=
  match classify sx0 sx1 it with SLeft => vadd (itag it) (idir it) v | _ => v end.

Lemma left_vec_eq : forall n sx0 sx1 items,
  left_vec n sx0 sx1 items = fold_left (lv_step sx0 sx1) items (repeat 0%Z n).
Proof. reflexivity. Qed.

Lemma lv_fold_length : forall sx0 sx1 items vec,
  length (fold_left (lv_step sx0 sx1) items vec) = length vec.
Proof.
  intros sx0 sx1. induction items as [|it tl IH]; intros vec; [reflexivity|].
  cbn [fold_left]. rewrite IH. unfold lv_step.
  destruct (classify sx0 sx1 it); rewrite ?vadd_length; reflexivity.
Qed.

Lemma lv_fold_nth : forall n s x sx0 sx1 items vec,
  length vec = n ->
  (forall it, In it items -> (itag it < n)%nat /\ side_ok s x sx0 sx1 it) ->
  forall k, (k < n)%nat ->
  nth k (fold_left (lv_step sx0 sx1) items vec) 0%Z
  = (nth k vec 0 + zsum (map (ctr s x k) items))%Z.
Proof.
  intros n s x sx0 sx1.
  induction items as [|it tl IH]; intros vec Hlen Hall k Hk.
  - cbn [fold_left map]. unfold zsum. cbn [fold_right]. lia.
  - cbn [fold_left map]. rewrite zsum_cons.
    destruct (Hall it (or_introl eq_refl)) as [Htag Hside].
    unfold side_ok in Hside.
    rewrite IH; [| |intros it' Hit'; apply Hall; right; exact Hit'|exact Hk].
    + change (ctr s x k it) with
        (if Nat.eqb (itag it) k then (if Rlt_dec (xq s it) x then idir it else 0%Z) else 0%Z).
      unfold lv_step.
      destruct (classify sx0 sx1 it).
      * rewrite nth_vadd by lia.
        destruct (Rlt_dec (xq s it) x) as [Hl|Hl]; [|contradiction].
        destruct (Nat.eqb (itag it) k); lia.
      * destruct (Rlt_dec (xq s it) x) as [Hl|Hl]; [exfalso; lra|].
        destruct (Nat.eqb (itag it) k); lia.
      * destruct (Rlt_dec (xq s it) x) as [Hl|Hl]; [exfalso; lra|].
        destruct (Nat.eqb (itag it) k); lia.
      * contradiction.
    + unfold lv_step. destruct (classify sx0 sx1 it); rewrite ?vadd_length; exact Hlen.
Qed.

(* every item of the slab is on the side claimed by [classify] *)
Lemma item_side_ok : forall E r2 y0 y1 s x yq sx0 sx1 k e,
  0 <= s < 1 -> Q2R y0 < Q2R y1 ->
  yq = (1 - s) * Q2R y0 + s * Q2R y1 ->
  x = (1 - s) * Q2R sx0 + s * Q2R sx1 ->
  0 <= r2 -> far E r2 (x, yq) -> In e E ->
  spanning y0 y1 e = true ->
  classify sx0 sx1 (mk_item y0 y1 (k, e)) <> SCross ->
  side_ok s x sx0 sx1 (mk_item y0 y1 (k, e)).
Proof.
  intros E r2 y0 y1 s x yq sx0 sx1 k e Hs HY Hyq Hx Hr Hfar He Hsp Hnc.
  destruct (spanning_range _ _ _ Hsp) as [Hne Hrng].
  pose proof (xq_mk_item y0 y1 s yq Hyq k e (IZR_neq_py e Hne)) as Hxq.
  pose proof (yq_in y0 y1 s yq Hs HY Hyq) as Hin.
  set (it := mk_item y0 y1 (k, e)) in *.
  unfold side_ok. unfold classify in *. cbv zeta in *.
  assert (Hxv : xq s it = (1 - s) * Q2R (ix0 it) + s * Q2R (ix1 it)) by reflexivity.
  clearbody it.
  destruct (Qle_bool (ix0 it) sx0) eqn:L0; qb L0;
  destruct (Qle_bool (ix1 it) sx1) eqn:L1; qb L1;
  destruct (Qle_bool sx0 (ix0 it)) eqn:G0; qb G0;
  destruct (Qle_bool sx1 (ix1 it)) eqn:G1; qb G1;
  cbn [andb] in *; try (exfalso; apply Hnc; reflexivity);
  set (I0 := Q2R (ix0 it)) in *; set (I1 := Q2R (ix1 it)) in *;
  set (S0 := Q2R sx0) in *; set (S1 := Q2R sx1) in *; clearbody I0 I1 S0 S1;
  try (assert (Ha : 0 <= (1 - s) * (S0 - I0)) by (apply Rmult_le_pos; lra);
       assert (Hb : 0 <= s * (S1 - I1)) by (apply Rmult_le_pos; lra));
  try (assert (Ha' : 0 <= (1 - s) * (I0 - S0)) by (apply Rmult_le_pos; lra);
       assert (Hb' : 0 <= s * (I1 - S1)) by (apply Rmult_le_pos; lra));
  try lra.
  all: destruct (Rlt_le_dec (xq s it) x) as [Hlt|Hge]; [exact Hlt|exfalso].
  all: apply (Hfar e He); apply on_edge; [lra|exact Hne|lra|exact Hr].
Qed.

Lemma Q2R_param_at_y : forall a b y, (py a < py b)%Z ->
  Q2R (param_at_y a b y) = (Q2R y - IZR (py a)) / (IZR (py b) - IZR (py a)).
Proof.
  intros a b y H. unfold param_at_y. rewrite Q2R_Qred.
  rewrite Q2R_div.
  - rewrite Q2R_minus, !Q2R_zq, minus_IZR. reflexivity.
  - intro Hz. apply Qeq_eqR in Hz. rewrite Q2R_zq, Q2R_zero, minus_IZR in Hz.
    apply IZR_lt in H. lra.
Qed.

Lemma seg_slab_sound : forall n Es E r2 fuel g cov a b y0 y1 t,
  seg_slab_check n Es E r2 fuel g cov a b y0 y1 = true ->
  (forall te, In te Es -> In (snd te) E) ->
  0 <= Q2R r2 ->
  (py a < py b)%Z ->
  IZR (py a) <= snd (seg_pt a b t) < IZR (py b) ->
  Q2R y0 <= snd (seg_pt a b t) < Q2R y1 ->
  far E (Q2R r2) (seg_pt a b t) ->
  (covered_by cov t <-> g (wnvec n Es (seg_pt a b t)) = true).
Proof.
  intros n Es E r2 fuel g cov a b y0 y1 t Hchk HE Hr Hab Hseg Hq Hfar.
  unfold seg_slab_check in Hchk.
  apply andb_true_iff in Hchk. destruct Hchk as [Hchk Hrest].
  apply andb_true_iff in Hchk. destruct Hchk as [Hchk Htags].
  apply andb_true_iff in Hchk. destruct Hchk as [Hy Hcls].
  apply negb_true_iff in Hy. qb Hy.
  destruct (Qle_bool y1 (zq (py a)) || Qle_bool (zq (py b)) y0) eqn:Hm.
  { exfalso. apply orb_true_iff in Hm. destruct Hm as [Hm|Hm]; qb Hm; lra. }
  cbv zeta in Hrest.
  apply andb_true_iff in Hrest. destruct Hrest as [Hrest Hrest2].
  apply andb_true_iff in Hrest. destruct Hrest as [Hlo Hhi]. qb Hlo. qb Hhi.
  apply andb_true_iff in Hrest2. destruct Hrest2 as [Hnc Hchain].
  clear Hm.
  pose proof (seg_pt_xat a b t Hab) as Hxat.
  set (x := fst (seg_pt a b t)) in *. set (yq := snd (seg_pt a b t)) in *.
  assert (Eq : seg_pt a b t = (x, yq)) by (unfold x, yq; apply surjective_pairing).
  assert (Eyq : yq = IZR (py a) + t * (IZR (py b) - IZR (py a))).
  { unfold yq, seg_pt. cbn [snd]. rewrite minus_IZR. reflexivity. }
  rewrite Eq in *. clearbody x yq.
  set (s := (yq - Q2R y0) / (Q2R y1 - Q2R y0)).
  assert (Hyq : yq = (1 - s) * Q2R y0 + s * Q2R y1) by (unfold s; field; lra).
  assert (Hs : 0 <= s < 1).
  { destruct (div_bounds (yq - Q2R y0) (Q2R y1 - Q2R y0)) as [Ha Hb]; [lra|lra|].
    fold s in Ha, Hb. split; [exact Ha|].
    destruct Hb as [Hb|Hb]; [exact Hb|]. exfalso. rewrite Hb in Hyq. lra. }
  clearbody s.
  set (sx0 := xatQ (a, b) y0) in *. set (sx1 := xatQ (a, b) y1) in *.
  assert (Hab' : py (fst (a, b)) <> py (snd (a, b))) by (cbn [fst snd]; lia).
  assert (Hx : x = (1 - s) * Q2R sx0 + s * Q2R sx1).
  { unfold sx0, sx1. rewrite !xatQ_R by exact Hab'. cbn [fst snd].
    rewrite <- Hxat, Hyq. apply xat_affine.
    unfold IP. cbn [snd]. apply IZR_lt in Hab. lra. }
  set (items := map (mk_item y0 y1) (filter (fun te => spanning y0 y1 (snd te)) Es)) in *.
  (* the winding vector is the one computed by left_vec *)
  assert (Hvec : wnvec n Es (x, yq) = left_vec n sx0 sx1 items).
  { rewrite left_vec_eq.
    apply nth_ext with (d := 0%Z) (d' := 0%Z).
    - rewrite lv_fold_length, repeat_length. unfold wnvec.
      rewrite map_length, seq_length. reflexivity.
    - unfold wnvec at 1. rewrite map_length, seq_length. intros k Hk.
      unfold wnvec. rewrite nth_map_seq by exact Hk.
      rewrite (wnk_items y0 y1 s x yq Hs Hy Hyq Es k Hcls). fold items.
      rewrite (lv_fold_nth n s x sx0 sx1 items (repeat 0%Z n) (repeat_length _ _)); [| |exact Hk].
      + rewrite nth_repeat0. lia.
      + intros it Hit. unfold items in Hit. apply in_map_iff in Hit.
        destruct Hit as [te [Hte Hin]]. apply filter_In in Hin. destruct Hin as [Hin Hsp].
        split.
        * rewrite forallb_forall in Htags. specialize (Htags te Hin).
          apply Nat.ltb_lt in Htags. subst it. exact Htags.
        * subst it. destruct te as [k' e]. cbn [snd] in Hsp.
          apply (item_side_ok E (Q2R r2) y0 y1 s x yq sx0 sx1 k' e Hs Hy Hyq Hx Hr Hfar).
          -- apply (HE (k', e) Hin).
          -- exact Hsp.
          -- unfold no_cross in Hnc. rewrite forallb_forall in Hnc.
             specialize (Hnc (mk_item y0 y1 (k', e))).
             intro Hc. rewrite Hc in Hnc. 
             assert (false = true); [|discriminate].
             apply Hnc. unfold items. apply in_map_iff. exists (k', e).
             split; [reflexivity|]. apply filter_In. split; [exact Hin|exact Hsp]. }
  rewrite Hvec.
  set (t0 := param_at_y a b y0) in *. set (t1 := param_at_y a b y1) in *.
  apply (chain_ok_sound _ _ _ _ _ _ _ _ _ Hchain).
  - intro Hnil. apply app_eq_nil in Hnil. destruct Hnil as [_ Hnil]. discriminate.
  - rewrite last_last. unfold t0, t1. rewrite !Q2R_param_at_y by exact Hab.
    apply IZR_lt in Hab.
    set (D := IZR (py b) - IZR (py a)) in *.
    assert (HD : 0 < D) by (unfold D; lra).
    assert (Et : t = (yq - IZR (py a)) / D) by (rewrite Eyq; field; lra).
    rewrite Et. unfold Rdiv.
    assert (Hi : 0 < / D) by (apply Rinv_0_lt_compat; exact HD).
    split; apply Rmult_le_compat_r; lra.
  - rewrite Eq. exact Hfar.
Qed.

(* ------------------------------------------------------------------ *)
(* 4. the chain of slabs, and the whole upward segment                  *)

Lemma seg_slabs_locate : forall n Es E r2 fuel g cov a b t Y y0,
  seg_slabs_check n Es E r2 fuel g cov a b y0 Y = true ->
  (forall te, In te Es -> In (snd te) E) ->
  0 <= Q2R r2 ->
  (py a < py b)%Z ->
  IZR (py a) <= snd (seg_pt a b t) < IZR (py b) ->
  Q2R y0 <= snd (seg_pt a b t) < Q2R (last Y y0) ->
  far E (Q2R r2) (seg_pt a b t) ->
  (covered_by cov t <-> g (wnvec n Es (seg_pt a b t)) = true).
Proof.
  intros n Es E r2 fuel g cov a b t.
  induction Y as [|y1 Y IH]; intros y0 Hchk HE Hr Hab Hseg Hrng Hfar.
  - cbn [last] in Hrng. exfalso. lra.
  - cbn [seg_slabs_check] in Hchk. apply andb_true_iff in Hchk.
    destruct Hchk as [Hs Hrest].
    rewrite last_cons_default in Hrng.
    destruct (Rlt_le_dec (snd (seg_pt a b t)) (Q2R y1)) as [Hlt|Hge].
    + apply (seg_slab_sound _ _ _ _ _ _ _ _ _ _ _ _ Hs HE Hr Hab Hseg); [lra|exact Hfar].
    + apply (IH y1 Hrest HE Hr Hab Hseg); [lra|exact Hfar].
Qed.

Theorem upseg_sound : forall n Es E r2 fuel g cov a b Y t,
  upseg_check n Es E r2 fuel g cov a b Y = true ->
  (forall te, In te Es -> In (snd te) E) ->
  (0 <= Q2R r2)%R ->
  (0 <= t <= 1)%R ->
  far E (Q2R r2) (seg_pt a b t) ->
  (covered_by cov t <-> g (wnvec n Es (seg_pt a b t)) = true).
Proof.
  intros n Es E r2 fuel g cov a b Y t Hchk HE Hr Ht Hfar.
  unfold upseg_check in Hchk.
  apply andb_true_iff in Hchk. destruct Hchk as [Hab Hchk]. apply Z.ltb_lt in Hab.
  destruct Y as [|ya Y']; [discriminate|].
  apply andb_true_iff in Hchk. destruct Hchk as [Hchk Hpt].
  apply andb_true_iff in Hchk. destruct Hchk as [Hchk Hslabs].
  apply andb_true_iff in Hchk. destruct Hchk as [Hya Hyb]. qb Hya. qb Hyb.
  destruct (Rlt_le_dec t 1) as [Hlt|Hge].
  - assert (Hseg : IZR (py a) <= snd (seg_pt a b t) < IZR (py b)).
    { unfold seg_pt. cbn [snd]. rewrite minus_IZR. apply IZR_lt in Hab.
      set (D := IZR (py b) - IZR (py a)).
      assert (HD : 0 < D) by (unfold D; lra).
      assert (H1 : 0 <= t * D) by (apply Rmult_le_pos; lra).
      assert (H2 : t * D < 1 * D) by (apply Rmult_lt_compat_r; lra).
      unfold D in *. lra. }
    apply (seg_slabs_locate _ _ _ _ _ _ _ _ _ _ _ _ Hslabs HE Hr Hab Hseg); [lra|exact Hfar].
  - assert (Et : t = Q2R 1) by (rewrite Q2R_one; lra).
    rewrite Et in *. apply (point_ok_sound _ _ _ _ _ _ _ _ _ Hpt Hfar).
Qed.

(* ------------------------------------------------------------------ *)
(* 5. a horizontal segment                                              *)

Lemma hseg_pt : forall a b t, py a = py b ->
  seg_pt a b t = (IZR (px a) + t * IZR (px b - px a), IZR (py a)).
Proof.
  intros a b t H. unfold seg_pt. rewrite H, Z.sub_diag, Rmult_0_r, Rplus_0_r. reflexivity.
Qed.

Lemma wnvec_ext : forall n Es q q',
  (forall te, In te Es -> cre (snd te) q = cre (snd te) q') ->
  wnvec n Es q = wnvec n Es q'.
Proof.
  intros n Es q q' H. unfold wnvec. apply map_ext. intros k. unfold wnk. f_equal.
  apply map_ext_in. intros te Hte. rewrite (H te Hte). reflexivity.
Qed.

(* no edge meets the open piece (x0,x1) of the line at height yQ: the crossing number of
   every band edge is the same at all far points of the closed piece *)
Lemma cre_hpiece : forall e E r2 (yQ x0 x1 : Q) (x xm : R),
  In e E -> 0 <= r2 -> far E r2 (x, Q2R yQ) ->
  crosses_between yQ x0 x1 e = false ->
  Q2R x0 <= x <= Q2R x1 ->
  Q2R x0 < xm < Q2R x1 ->
  cre e (x, Q2R yQ) = cre e (xm, Q2R yQ).
Proof.
  intros e E r2 yQ x0 x1 x xm He Hr Hfar Hc Hx Hxm.
  unfold crosses_between in Hc. cbv zeta in Hc.
  destruct (Rle_lt_dec (IZR (py (fst e))) (Q2R yQ)) as [H1|H1];
  destruct (Rle_lt_dec (IZR (py (snd e))) (Q2R yQ)) as [H2|H2].
  - rewrite !cre_none by (cbn [snd]; lra). reflexivity.
  - (* upward edge spanning the height *)
    rewrite !cre_up by (cbn [snd]; lra). cbn [fst snd].
    assert (HA : Qle_bool (zq (py (fst e))) yQ = true)
      by (apply Qle_bool_of_Rle; rewrite Q2R_zq; exact H1).
    assert (HB : Qle_bool (zq (py (snd e))) yQ = false).
    { destruct (Qle_bool (zq (py (snd e))) yQ) eqn:HB; [qb HB; exfalso; lra|reflexivity]. }
    rewrite HA, HB in Hc. cbn [andb orb negb] in Hc.
    assert (Hne : IZR (py (fst e)) <> IZR (py (snd e))) by lra.
    rewrite <- (xatQ_R e yQ (IZR_neq_py e Hne)).
    pose proof (xatQ_R e yQ (IZR_neq_py e Hne)) as HX.
    set (X := Q2R (xatQ e yQ)) in *.
    destruct (Qle_bool (xatQ e yQ) x0) eqn:HC; qb HC; fold X in HC;
    destruct (Qle_bool x1 (xatQ e yQ)) eqn:HD; qb HD; fold X in HD;
    cbn [andb negb] in Hc; try discriminate;
    destruct (Rlt_dec X x) as [Hl|Hl]; destruct (Rlt_dec X xm) as [Hl'|Hl'];
    try reflexivity; try (exfalso; lra).
    all: exfalso; apply (Hfar e He); apply on_edge; [lra|exact Hne|lra|exact Hr].
  - (* downward edge spanning the height *)
    rewrite !cre_down by (cbn [snd]; lra). cbn [fst snd].
    assert (HB : Qle_bool (zq (py (snd e))) yQ = true)
      by (apply Qle_bool_of_Rle; rewrite Q2R_zq; exact H2).
    assert (HA : Qle_bool (zq (py (fst e))) yQ = false).
    { destruct (Qle_bool (zq (py (fst e))) yQ) eqn:HA; [qb HA; exfalso; lra|reflexivity]. }
    rewrite HA, HB in Hc. cbn [andb orb negb] in Hc.
    assert (Hne : IZR (py (fst e)) <> IZR (py (snd e))) by lra.
    rewrite <- (xatQ_R e yQ (IZR_neq_py e Hne)).
    pose proof (xatQ_R e yQ (IZR_neq_py e Hne)) as HX.
    set (X := Q2R (xatQ e yQ)) in *.
    destruct (Qle_bool (xatQ e yQ) x0) eqn:HC; qb HC; fold X in HC;
    destruct (Qle_bool x1 (xatQ e yQ)) eqn:HD; qb HD; fold X in HD;
    cbn [andb negb] in Hc; try discriminate;
    destruct (Rlt_dec X x) as [Hl|Hl]; destruct (Rlt_dec X xm) as [Hl'|Hl'];
    try reflexivity; try (exfalso; lra).
    all: exfalso; apply (Hfar e He); apply on_edge; [lra|exact Hne|lra|exact Hr].
  - rewrite !cre_none by (cbn [snd]; lra). reflexivity.
Qed.

Lemma hpiece_sound : forall n Es E r2 fuel g cov a b s0 s1 t,
  py a = py b -> (px a < px b)%Z ->
  (forall te, In te Es -> In (snd te) E) -> 0 <= Q2R r2 ->
  Qle_bool s0 s1 = true ->
  forallb (fun te => negb (crosses_between (zq (py a)) (fst (q_at a b s0)) (fst (q_at a b s1)) (snd te))) Es = true ->
  piece_ok a b E r2 cov (g (wnvecQ n Es (q_at a b (Qred ((s0 + s1) / 2))))) fuel s0 s1 = true ->
  Q2R s0 <= t <= Q2R s1 ->
  far E (Q2R r2) (seg_pt a b t) ->
  (covered_by cov t <-> g (wnvec n Es (seg_pt a b t)) = true).
Proof.
  intros n Es E r2 fuel g cov a b s0 s1 t Hy Hx HE Hr Hle Hcr Hp Ht Hfar.
  pose proof (piece_ok_sound _ _ _ _ _ _ _ _ _ Hp t Ht Hfar) as Hiff.
  rewrite wnvecQ_correct, QP_q_at in Hiff.
  replace (wnvec n Es (seg_pt a b t))
    with (wnvec n Es (seg_pt a b (Q2R (Qred ((s0 + s1) / 2))))); [exact Hiff|].
  clear Hiff Hp.
  change (Qred ((s0 + s1) / 2)) with (half s0 s1). rewrite Q2R_half.
  qb Hle.
  destruct (Req_dec (Q2R s0) (Q2R s1)) as [Heq|Hneq].
  { f_equal. f_equal. lra. }
  assert (Hlt : Q2R s0 < Q2R s1) by lra.
  symmetry. apply wnvec_ext. intros te Hte.
  rewrite forallb_forall in Hcr. specialize (Hcr te Hte). apply negb_true_iff in Hcr.
  rewrite !(hseg_pt a b _ Hy). rewrite hseg_pt in Hfar by exact Hy.
  rewrite <- (Q2R_zq (py a)) in *.
  apply IZR_lt in Hx.
  assert (Hdx : 0 < IZR (px b - px a)) by (rewrite minus_IZR; lra).
  assert (E0 : Q2R (fst (q_at a b s0)) = IZR (px a) + Q2R s0 * IZR (px b - px a)).
  { unfold q_at. cbn [fst]. rewrite Q2R_plus, Q2R_mult, !Q2R_zq. reflexivity. }
  assert (E1 : Q2R (fst (q_at a b s1)) = IZR (px a) + Q2R s1 * IZR (px b - px a)).
  { unfold q_at. cbn [fst]. rewrite Q2R_plus, Q2R_mult, !Q2R_zq. reflexivity. }
  apply (cre_hpiece (snd te) E (Q2R r2) (zq (py a)) _ _ _ _ (HE te Hte) Hr Hfar Hcr).
  - rewrite E0, E1. split; apply Rplus_le_compat_l; apply Rmult_le_compat_r; lra.
  - rewrite E0, E1. split; apply Rplus_lt_compat_l; apply Rmult_lt_compat_r; lra.
Qed.

Lemma hchain_ok_strict : forall n Es E r2 fuel g cov a b T s0,
  py a = py b -> (px a < px b)%Z ->
  (forall te, In te Es -> In (snd te) E) -> 0 <= Q2R r2 ->
  hchain_ok n Es E r2 fuel g cov a b s0 T = true ->
  forall t, Q2R s0 < t <= Q2R (last T s0) -> far E (Q2R r2) (seg_pt a b t) ->
            (covered_by cov t <-> g (wnvec n Es (seg_pt a b t)) = true).
Proof.
  intros n Es E r2 fuel g cov a b.
  induction T as [|s1 T IH]; intros s0 Hy Hx HE Hr H t Ht Hfar.
  - cbn [last] in Ht. exfalso. lra.
  - cbn [hchain_ok] in H. cbv zeta in H.
    apply andb_true_iff in H. destruct H as [H Hc].
    apply andb_true_iff in H. destruct H as [Hle H].
    apply andb_true_iff in H. destruct H as [Hcr Hp].
    rewrite last_cons_default in Ht.
    destruct (Rle_lt_dec t (Q2R s1)) as [H1|H1].
    + apply (hpiece_sound _ _ _ _ _ _ _ _ _ _ _ _ Hy Hx HE Hr Hle Hcr Hp); [lra|exact Hfar].
    + apply (IH s1 Hy Hx HE Hr Hc); [lra|exact Hfar].
Qed.

Lemma hchain_ok_sound : forall n Es E r2 fuel g cov a b T s0,
  py a = py b -> (px a < px b)%Z ->
  (forall te, In te Es -> In (snd te) E) -> 0 <= Q2R r2 ->
  hchain_ok n Es E r2 fuel g cov a b s0 T = true -> T <> [] ->
  forall t, Q2R s0 <= t <= Q2R (last T s0) -> far E (Q2R r2) (seg_pt a b t) ->
            (covered_by cov t <-> g (wnvec n Es (seg_pt a b t)) = true).
Proof.
  intros n Es E r2 fuel g cov a b T s0 Hy Hx HE Hr H Hne t Ht Hfar.
  destruct (Rle_lt_dec t (Q2R s0)) as [H0|H0].
  - destruct T as [|s1 T]; [contradiction|].
    cbn [hchain_ok] in H. cbv zeta in H.
    apply andb_true_iff in H. destruct H as [H Hc].
    apply andb_true_iff in H. destruct H as [Hle H].
    apply andb_true_iff in H. destruct H as [Hcr Hp].
    pose proof (Qle_bool_true_le _ _ Hle) as Hle'.
    apply (hpiece_sound _ _ _ _ _ _ _ _ _ _ _ _ Hy Hx HE Hr Hle Hcr Hp); [lra|exact Hfar].
  - apply (hchain_ok_strict _ _ _ _ _ _ _ _ _ _ _ Hy Hx HE Hr H); [lra|exact Hfar].
Qed.

Theorem hseg_sound : forall n Es E r2 fuel g cov a b T t,
  hseg_check n Es E r2 fuel g cov a b T = true ->
  (forall te, In te Es -> In (snd te) E) ->
  (0 <= Q2R r2)%R ->
  (0 <= t <= 1)%R ->
  far E (Q2R r2) (seg_pt a b t) ->
  (covered_by cov t <-> g (wnvec n Es (seg_pt a b t)) = true).
Proof.
  intros n Es E r2 fuel g cov a b T t Hchk HE Hr Ht Hfar.
  unfold hseg_check in Hchk.
  apply andb_true_iff in Hchk. destruct Hchk as [Hchk HT].
  apply andb_true_iff in Hchk. destruct Hchk as [Hchk _].
  apply andb_true_iff in Hchk. destruct Hchk as [Hy Hx].
  apply Z.eqb_eq in Hy. apply Z.ltb_lt in Hx.
  destruct T as [|t0 T']; [discriminate|].
  apply andb_true_iff in HT. destruct HT as [HT Hchain].
  apply andb_true_iff in HT. destruct HT as [H0 H1].
  apply Qeq_bool_R in H0. apply Qeq_bool_R in H1. rewrite Q2R_zero in H0. rewrite Q2R_one in H1.
  apply (hchain_ok_sound _ _ _ _ _ _ _ _ _ _ _ Hy Hx HE Hr Hchain).
  - intro Hnil. subst T'. cbn [last] in H1. lra.
  - lra.
  - exact Hfar.
Qed.

(* ------------------------------------------------------------------ *)
(* 6. C09: one open subject segment against closed subject S and clip C *)

Definition orient (a b : pt) : pt * pt :=
  if (py a =? py b)%Z then (if (px a <? px b)%Z then (a, b) else (b, a))
  else (if (py a <? py b)%Z then (a, b) else (b, a)).

Lemma tag_all_in_band : forall (S0 C0 : paths) te,
  In te (tag_all 0 [S0; C0]) -> In (snd te) (edges_of_paths S0 ++ edges_of_paths C0).
Proof.
  intros S0 C0 te H. cbn [tag_all] in H. rewrite app_nil_r in H.
  apply in_app_iff in H. apply in_app_iff.
  destruct H as [H|H]; apply in_map_iff in H; destruct H as [e [<- He]]; cbn [snd]; auto.
Qed.

Lemma wnvec_SC : forall (S0 C0 : paths) q,
  wnvec 2 (tag_all 0 [S0; C0]) q = [wn S0 q; wn C0 q].
Proof. intros S0 C0 q. exact (wnvec_tag_all [S0; C0] q). Qed.

Theorem c09_seg_sound : forall ct fr fuel S C OS a b Y T t,
  c09_seg_check ct fr fuel S C OS a b Y T = true -> a <> b ->
  (0 <= t <= 1)%R ->
  let a' := fst (orient a b) in let b' := snd (orient a b) in
  far (edges_of_paths S ++ edges_of_paths C) 4 (seg_pt a' b' t) ->
  (covered_by (cov_intervals a' b' 2 OS) t <-> want_open ct fr [wn S (seg_pt a' b' t); wn C (seg_pt a' b' t)] = true).
Proof.
  intros ct fr fuel S0 C0 OS a b Y T t H Hne Ht a' b' Hfar.
  rewrite <- wnvec_SC. rewrite <- Q2R_four in Hfar.
  assert (Hr : 0 <= Q2R 4) by (rewrite Q2R_four; lra).
  unfold c09_seg_check in H. cbv zeta in H.
  subst a' b'. unfold orient in *.
  destruct (py a =? py b)%Z eqn:Ey.
  - destruct (px a =? px b)%Z eqn:Ex.
    + exfalso. apply Hne. apply Z.eqb_eq in Ex, Ey.
      destruct a as [ax ay], b as [bx by_]. unfold px, py in *. cbn [fst snd] in *.
      subst. reflexivity.
    + destruct (px a <? px b)%Z; cbn [fst snd] in *;
      exact (hseg_sound _ _ _ _ _ _ _ _ _ _ _ H (tag_all_in_band S0 C0) Hr Ht Hfar).
  - destruct (py a <? py b)%Z; cbn [fst snd] in *;
    exact (upseg_sound _ _ _ _ _ _ _ _ _ _ _ H (tag_all_in_band S0 C0) Hr Ht Hfar).
Qed.

