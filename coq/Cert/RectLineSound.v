(* Cert/RectLineSound.v — soundness of the rectangle/open-polyline checker of
   Cert/RectLine.v: for every REAL parameter t of the input segment a-b whose
   point is farther than 2 from the four sides of the rectangle, the point is
   covered by the solution exactly when it is strictly inside the rectangle. *)
From Coq Require Import Reals QArith Qreals ZArith List Bool Lra Lia Psatz.
From Clip Require Import Base.Int64 Model.Arith Base.Geom Cert.Region Cert.RegionSpec
  Cert.CoverSound Cert.RectLine.
Import ListNotations.
Open Scope R_scope.

(* ------------------------------------------------------------------ *)
(* 0. the specification vocabulary                                      *)

Definition seg_pt (a b : pt) (t : R) : rpt :=
  (IZR (px a) + t * IZR (px b - px a), IZR (py a) + t * IZR (py b - py a))%R.

(* parameter t of the input segment a-b is covered by the open solution OS *)
Definition covered (a b : pt) (OS : paths) (t : R) : Prop :=
  exists lo hi, In (lo, hi) (cov_intervals a b 1 OS) /\ (Q2R lo <= t <= Q2R hi)%R.

Definition strictly_inside (R : irect) (q : rpt) : Prop :=
  (IZR (rl R) < fst q < IZR (rr R) /\ IZR (rt R) < snd q < IZR (rb R))%R.

Definition rect_sides (R : irect) : list edge :=
  [((rl R, rt R), (rr R, rt R)); ((rr R, rt R), (rr R, rb R));
   ((rr R, rb R), (rl R, rb R)); ((rl R, rb R), (rl R, rt R))].

(* within sqrt r2 of the filled rectangle.  (The rectangle is named Rc, not R,
   so that the type R of the reals is not shadowed in the binder of r2.) *)
Definition near_rect (Rc : irect) (r2 : R) (q : rpt) : Prop :=
  exists cx cy, (IZR (rl Rc) <= cx <= IZR (rr Rc) /\ IZR (rt Rc) <= cy <= IZR (rb Rc) /\
                 (fst q - cx) * (fst q - cx) + (snd q - cy) * (snd q - cy) <= r2)%R.

(* ------------------------------------------------------------------ *)
(* 1. bridging Q -> R                                                   *)

Lemma Q2R_four : Q2R 4 = 4.
Proof. unfold Q2R. cbn [Qnum Qden]. rewrite Rinv_1. ring. Qed.

Lemma QP_q_at : forall a b tq, QP (q_at a b tq) = seg_pt a b (Q2R tq).
Proof.
  intros a b tq. unfold QP, q_at, seg_pt. cbn [fst snd].
  rewrite !Q2R_plus, !Q2R_mult, !Q2R_zq. reflexivity.
Qed.

Lemma Qle_bool_of_Rle : forall x y, Q2R x <= Q2R y -> Qle_bool x y = true.
Proof. intros x y H. apply Qle_bool_iff. apply Rle_Qle. exact H. Qed.

(* ------------------------------------------------------------------ *)
(* 2. Liang-Barsky narrowing never loses a parameter                    *)

Lemma between_div : forall lo hi c0 c1 t : R,
  c1 <> 0 -> lo <= c0 + t * c1 <= hi ->
  ((lo - c0) / c1 <= t <= (hi - c0) / c1) \/ ((hi - c0) / c1 <= t <= (lo - c0) / c1).
Proof.
  intros lo hi c0 c1 t Hnz [H1 H2].
  destruct (Rlt_le_dec 0 c1) as [Hp|Hn].
  - left. split.
    + apply Rmult_le_reg_r with c1; [exact Hp|].
      replace ((lo - c0) / c1 * c1) with (lo - c0) by (field; lra). lra.
    + apply Rmult_le_reg_r with c1; [exact Hp|].
      replace ((hi - c0) / c1 * c1) with (hi - c0) by (field; lra). lra.
  - right. assert (Hneg : 0 < - c1) by lra. split.
    + apply Rmult_le_reg_r with (- c1); [exact Hneg|].
      replace ((hi - c0) / c1 * - c1) with (- (hi - c0)) by (field; lra). lra.
    + apply Rmult_le_reg_r with (- c1); [exact Hneg|].
      replace ((lo - c0) / c1 * - c1) with (- (lo - c0)) by (field; lra). lra.
Qed.

Lemma narrow_sound : forall c0 c1 lo hi t1 t2 t,
  Q2R t1 <= t <= Q2R t2 ->
  Q2R lo <= Q2R c0 + t * Q2R c1 <= Q2R hi ->
  exists n1 n2, narrow c0 c1 lo hi (Some (t1, t2)) = Some (n1, n2) /\
                Q2R n1 <= t <= Q2R n2.
Proof.
  intros c0 c1 lo hi t1 t2 t Ht Hc. unfold narrow.
  assert (Hlh : Qle_bool lo hi = true) by (apply Qle_bool_of_Rle; lra).
  rewrite Hlh. cbn [negb]. cbv iota. clear Hlh.
  destruct (Qeq_bool c1 0) eqn:E0.
  - apply Qeq_bool_iff in E0. apply Qeq_eqR in E0. rewrite Q2R_zero in E0.
    rewrite E0 in Hc.
    assert (H1 : Qle_bool lo c0 = true) by (apply Qle_bool_of_Rle; lra).
    assert (H2 : Qle_bool c0 hi = true) by (apply Qle_bool_of_Rle; lra).
    rewrite H1, H2. cbn [andb]. exists t1, t2. split; [reflexivity|exact Ht].
  - apply Qeq_bool_neq in E0.
    assert (Hnz : Q2R c1 <> 0).
    { intro Heq. apply E0. apply eqR_Qeq. rewrite Q2R_zero. exact Heq. }
    cbv zeta.
    set (ta := Qred ((lo - c0) / c1)).
    set (tb := Qred ((hi - c0) / c1)).
    assert (Eta : Q2R ta = (Q2R lo - Q2R c0) / Q2R c1).
    { unfold ta. rewrite Q2R_Qred, Q2R_div by exact E0. rewrite Q2R_minus. reflexivity. }
    assert (Etb : Q2R tb = (Q2R hi - Q2R c0) / Q2R c1).
    { unfold tb. rewrite Q2R_Qred, Q2R_div by exact E0. rewrite Q2R_minus. reflexivity. }
    pose proof (between_div _ _ _ _ _ Hnz Hc) as Hb.
    rewrite <- Eta, <- Etb in Hb. clear Eta Etb. clearbody ta tb.
    repeat match goal with
    | |- context [Qle_bool ?x ?y] =>
        is_var x; is_var y;
        let E := fresh "E" in
        destruct (Qle_bool x y) eqn:E;
        [apply Qle_bool_true_le in E | apply Qle_bool_false_lt in E]; cbv iota
    end;
    destruct Hb as [[Hb1 Hb2]|[Hb1 Hb2]];
    first [ do 2 eexists; split; [reflexivity | lra] | exfalso; lra ].
Qed.

Lemma box_range_sound : forall a b xlo xhi ylo yhi t,
  0 <= t <= 1 ->
  Q2R xlo <= fst (seg_pt a b t) <= Q2R xhi ->
  Q2R ylo <= snd (seg_pt a b t) <= Q2R yhi ->
  exists t1 t2, box_range a b xlo xhi ylo yhi = Some (t1, t2) /\ Q2R t1 <= t <= Q2R t2.
Proof.
  intros a b xlo xhi ylo yhi t Ht Hx Hy. unfold box_range.
  unfold seg_pt in Hx, Hy. cbn [fst snd] in Hx, Hy.
  destruct (narrow_sound (zq (px a)) (zq (px b - px a)) xlo xhi 0%Q 1%Q t)
    as [n1 [n2 [E Hn]]].
  - rewrite Q2R_zero, Q2R_one. exact Ht.
  - rewrite !Q2R_zq. exact Hx.
  - rewrite E. apply narrow_sound; [exact Hn|]. rewrite !Q2R_zq. exact Hy.
Qed.

(* ------------------------------------------------------------------ *)
(* 3. points of axis-parallel segments                                  *)

Lemma div_range : forall n d : R, 0 < d -> 0 <= n <= d -> 0 <= n / d <= 1.
Proof.
  intros n d Hd [H0 H1].
  assert (Hi : 0 < / d) by (apply Rinv_0_lt_compat; exact Hd).
  unfold Rdiv. split.
  - apply Rmult_le_pos; lra.
  - apply Rmult_le_reg_r with d; [exact Hd|].
    rewrite Rmult_assoc, Rinv_l by lra. lra.
Qed.

(* y lies between y0 and y1 (in either order): it is the point at a parameter in [0,1] *)
Lemma param_range : forall y0 y1 y : R,
  y0 <> y1 -> (y0 <= y <= y1 \/ y1 <= y <= y0) ->
  exists s, 0 <= s <= 1 /\ y = y0 + s * (y1 - y0).
Proof.
  intros y0 y1 y Hne H.
  exists ((y - y0) / (y1 - y0)). split; [|field; lra].
  destruct H as [H|H].
  - apply div_range; lra.
  - replace ((y - y0) / (y1 - y0)) with ((y0 - y) / (y0 - y1)) by (field; lra).
    apply div_range; lra.
Qed.

Lemma on_vert : forall (x y0 y1 : Z) (q : rpt) (y' : R),
  IZR y0 <> IZR y1 -> (IZR y0 <= y' <= IZR y1 \/ IZR y1 <= y' <= IZR y0) ->
  near_seg (IP (x, y0)) (IP (x, y1)) q
    ((fst q - IZR x) * (fst q - IZR x) + (snd q - y') * (snd q - y')).
Proof.
  intros x y0 y1 q y' Hne Hb.
  destruct (param_range _ _ _ Hne Hb) as [s [Hs Ey]].
  exists s. split; [exact Hs|].
  unfold dist2_at, IP, px, py. cbn [fst snd]. rewrite <- Ey.
  apply Req_le. ring.
Qed.

Lemma on_horiz : forall (y x0 x1 : Z) (q : rpt) (x' : R),
  IZR x0 <> IZR x1 -> (IZR x0 <= x' <= IZR x1 \/ IZR x1 <= x' <= IZR x0) ->
  near_seg (IP (x0, y)) (IP (x1, y)) q
    ((fst q - x') * (fst q - x') + (snd q - IZR y) * (snd q - IZR y)).
Proof.
  intros y x0 x1 q x' Hne Hb.
  destruct (param_range _ _ _ Hne Hb) as [s [Hs Ex]].
  exists s. split; [exact Hs|].
  unfold dist2_at, IP, px, py. cbn [fst snd]. rewrite <- Ex.
  apply Req_le. ring.
Qed.

Lemma near_seg_mono : forall a b q r r', r <= r' -> near_seg a b q r -> near_seg a b q r'.
Proof. intros a b q r r' Hr [t [Ht H]]. exists t. split; [exact Ht|lra]. Qed.

(* ------------------------------------------------------------------ *)
(* 4. (<-) strictly inside and far from the sides: inside the shrunk rectangle *)

Lemma sq_gt4_pos : forall d : R, 0 < d -> ~ (d * d + 0 * 0 <= 4) -> 2 <= d.
Proof.
  intros d Hd H. apply Rnot_lt_le. intro Hlt. apply H.
  assert (Hm : d * d <= 2 * 2).
  { apply Rmult_le_compat; lra. }
  lra.
Qed.

Lemma inside_far_shrunk : forall (Rc : irect) (q : rpt),
  strictly_inside Rc q -> far (rect_sides Rc) 4 q ->
  IZR (rl Rc) + 2 <= fst q <= IZR (rr Rc) - 2 /\
  IZR (rt Rc) + 2 <= snd q <= IZR (rb Rc) - 2.
Proof.
  intros Rc q [[Hx1 Hx2] [Hy1 Hy2]] Hfar.
  assert (Htop : ~ near_seg (IP (rl Rc, rt Rc)) (IP (rr Rc, rt Rc)) q 4).
  { apply (Hfar ((rl Rc, rt Rc), (rr Rc, rt Rc))). cbn. tauto. }
  assert (Hright : ~ near_seg (IP (rr Rc, rt Rc)) (IP (rr Rc, rb Rc)) q 4).
  { apply (Hfar ((rr Rc, rt Rc), (rr Rc, rb Rc))). cbn. tauto. }
  assert (Hbot : ~ near_seg (IP (rr Rc, rb Rc)) (IP (rl Rc, rb Rc)) q 4).
  { apply (Hfar ((rr Rc, rb Rc), (rl Rc, rb Rc))). cbn. tauto. }
  assert (Hleft : ~ near_seg (IP (rl Rc, rb Rc)) (IP (rl Rc, rt Rc)) q 4).
  { apply (Hfar ((rl Rc, rb Rc), (rl Rc, rt Rc))). cbn. tauto. }
  repeat split.
  - (* left side *)
    assert (H : 2 <= fst q - IZR (rl Rc)); [|lra].
    apply sq_gt4_pos; [lra|]. intro H. apply Hleft.
    eapply near_seg_mono; [|apply (on_vert (rl Rc) (rb Rc) (rt Rc) q (snd q)); lra].
    lra.
  - (* right side *)
    assert (H : 2 <= IZR (rr Rc) - fst q); [|lra].
    apply sq_gt4_pos; [lra|]. intro H. apply Hright.
    eapply near_seg_mono; [|apply (on_vert (rr Rc) (rt Rc) (rb Rc) q (snd q)); lra].
    lra.
  - (* top side *)
    assert (H : 2 <= snd q - IZR (rt Rc)); [|lra].
    apply sq_gt4_pos; [lra|]. intro H. apply Htop.
    eapply near_seg_mono; [|apply (on_horiz (rt Rc) (rl Rc) (rr Rc) q (fst q)); lra].
    lra.
  - (* bottom side *)
    assert (H : 2 <= IZR (rb Rc) - snd q); [|lra].
    apply sq_gt4_pos; [lra|]. intro H. apply Hbot.
    eapply near_seg_mono; [|apply (on_horiz (rb Rc) (rr Rc) (rl Rc) q (fst q)); lra].
    lra.
Qed.

(* ------------------------------------------------------------------ *)
(* 5. (->) near_rectQ is sound; near_rect is convex                     *)

Lemma clampQ_range : forall lo hi x : Q,
  Q2R lo <= Q2R hi -> Q2R lo <= Q2R (clampQ lo hi x) <= Q2R hi.
Proof.
  intros lo hi x H. unfold clampQ.
  destruct (Qle_bool x lo) eqn:E1; [lra|].
  destruct (Qle_bool hi x) eqn:E2; [lra|].
  apply Qle_bool_false_lt in E1. apply Qle_bool_false_lt in E2. lra.
Qed.

Lemma near_rectQ_sound : forall Rc r2 c,
  (rl Rc <= rr Rc)%Z -> (rt Rc <= rb Rc)%Z ->
  near_rectQ Rc r2 c = true -> near_rect Rc (Q2R r2) (QP c).
Proof.
  intros Rc r2 c Hlr Htb H. unfold near_rectQ in H. cbv zeta in H.
  apply Qle_bool_true_le in H.
  apply IZR_le in Hlr. apply IZR_le in Htb.
  pose proof (clampQ_range (zq (rl Rc)) (zq (rr Rc)) (fst c)) as Hcx.
  pose proof (clampQ_range (zq (rt Rc)) (zq (rb Rc)) (snd c)) as Hcy.
  rewrite !Q2R_zq in Hcx, Hcy.
  exists (Q2R (clampQ (zq (rl Rc)) (zq (rr Rc)) (fst c))),
         (Q2R (clampQ (zq (rt Rc)) (zq (rb Rc)) (snd c))).
  split; [apply Hcx; exact Hlr|]. split; [apply Hcy; exact Htb|].
  eapply Rle_trans; [|exact H]. apply Req_le.
  unfold QP. cbn [fst snd].
  rewrite Q2R_plus, !Q2R_mult, !Q2R_minus. reflexivity.
Qed.

Lemma convex_range : forall lo hi x1 x2 l : R,
  0 <= l <= 1 -> lo <= x1 <= hi -> lo <= x2 <= hi ->
  lo <= (1 - l) * x1 + l * x2 <= hi.
Proof.
  intros lo hi x1 x2 l Hl H1 H2.
  assert (Ha : (1 - l) * lo <= (1 - l) * x1) by (apply Rmult_le_compat_l; lra).
  assert (Hb : l * lo <= l * x2) by (apply Rmult_le_compat_l; lra).
  assert (Hc : (1 - l) * x1 <= (1 - l) * hi) by (apply Rmult_le_compat_l; lra).
  assert (Hd : l * x2 <= l * hi) by (apply Rmult_le_compat_l; lra).
  lra.
Qed.

Lemma near_rect_convex : forall Rc r P1 P2 l,
  0 <= l <= 1 -> near_rect Rc r P1 -> near_rect Rc r P2 ->
  near_rect Rc r ((1 - l) * fst P1 + l * fst P2, (1 - l) * snd P1 + l * snd P2).
Proof.
  intros Rc r P1 P2 l Hl [cx1 [cy1 [Hx1 [Hy1 H1]]]] [cx2 [cy2 [Hx2 [Hy2 H2]]]].
  exists ((1 - l) * cx1 + l * cx2), ((1 - l) * cy1 + l * cy2).
  split; [apply convex_range; assumption|].
  split; [apply convex_range; assumption|].
  cbn [fst snd].
  pose proof (convex_core (fst P1 - cx1) (snd P1 - cy1) (fst P2 - cx2) (snd P2 - cy2)
                l r Hl H1 H2) as Hc.
  eapply Rle_trans; [|exact Hc]. apply Req_le. ring.
Qed.

Lemma convex_param : forall lo hi t : R,
  lo <= t <= hi -> exists l, 0 <= l <= 1 /\ t = (1 - l) * lo + l * hi.
Proof.
  intros lo hi t [H1 H2].
  destruct (Req_dec lo hi) as [E|N].
  - exists 0. split; [lra|]. subst hi. assert (t = lo) by lra. subst t. ring.
  - exists ((t - lo) / (hi - lo)). split; [apply div_range; lra|]. field. lra.
Qed.

Lemma near_rect_seg : forall Rc r a b lo hi t,
  lo <= t <= hi ->
  near_rect Rc r (seg_pt a b lo) -> near_rect Rc r (seg_pt a b hi) ->
  near_rect Rc r (seg_pt a b t).
Proof.
  intros Rc r a b lo hi t Ht H1 H2.
  destruct (convex_param _ _ _ Ht) as [l [Hl Et]].
  pose proof (near_rect_convex Rc r _ _ l Hl H1 H2) as H.
  replace (seg_pt a b t) with
    ((1 - l) * fst (seg_pt a b lo) + l * fst (seg_pt a b hi),
     (1 - l) * snd (seg_pt a b lo) + l * snd (seg_pt a b hi)); [exact H|].
  unfold seg_pt. cbn [fst snd]. rewrite Et. f_equal; ring.
Qed.

(* ------------------------------------------------------------------ *)
(* 6. near the filled rectangle and far from its sides: strictly inside *)

Definition clampR (lo hi x : R) : R :=
  if Rle_dec x lo then lo else if Rle_dec hi x then hi else x.

Lemma clampR_range : forall lo hi x, lo <= hi -> lo <= clampR lo hi x <= hi.
Proof.
  intros lo hi x H. unfold clampR.
  destruct (Rle_dec x lo); [lra|]. destruct (Rle_dec hi x); lra.
Qed.

Lemma clampR_low : forall lo hi x, x <= lo -> clampR lo hi x = lo.
Proof. intros lo hi x H. unfold clampR. destruct (Rle_dec x lo); [reflexivity|lra]. Qed.

Lemma clampR_high : forall lo hi x, lo <= hi -> hi <= x -> clampR lo hi x = hi.
Proof.
  intros lo hi x H H'. unfold clampR.
  destruct (Rle_dec x lo); [lra|]. destruct (Rle_dec hi x); [reflexivity|lra].
Qed.

Lemma sq_le_abs : forall u v : R, (0 <= u <= v \/ v <= u <= 0) -> u * u <= v * v.
Proof.
  intros u v [[H0 H1]|[H0 H1]].
  - apply Rmult_le_compat; lra.
  - replace (u * u) with ((- u) * (- u)) by ring.
    replace (v * v) with ((- v) * (- v)) by ring.
    apply Rmult_le_compat; lra.
Qed.

Lemma clampR_nearest : forall lo hi x c,
  lo <= c <= hi ->
  (x - clampR lo hi x) * (x - clampR lo hi x) <= (x - c) * (x - c).
Proof.
  intros lo hi x c Hc. apply sq_le_abs. unfold clampR.
  destruct (Rle_dec x lo); [right; lra|].
  destruct (Rle_dec hi x); [left; lra|].
  destruct (Rle_dec 0 (x - c)); [left; lra|right; lra].
Qed.

Lemma near_rect_far_inside : forall (Rc : irect) (q : rpt),
  (rl Rc < rr Rc)%Z -> (rt Rc < rb Rc)%Z ->
  near_rect Rc 4 q -> far (rect_sides Rc) 4 q -> strictly_inside Rc q.
Proof.
  intros Rc q Hlr Htb [cx [cy [Hcx [Hcy Hd]]]] Hfar.
  apply IZR_lt in Hlr. apply IZR_lt in Htb.
  assert (Htop : ~ near_seg (IP (rl Rc, rt Rc)) (IP (rr Rc, rt Rc)) q 4).
  { apply (Hfar ((rl Rc, rt Rc), (rr Rc, rt Rc))). cbn. tauto. }
  assert (Hright : ~ near_seg (IP (rr Rc, rt Rc)) (IP (rr Rc, rb Rc)) q 4).
  { apply (Hfar ((rr Rc, rt Rc), (rr Rc, rb Rc))). cbn. tauto. }
  assert (Hbot : ~ near_seg (IP (rr Rc, rb Rc)) (IP (rl Rc, rb Rc)) q 4).
  { apply (Hfar ((rr Rc, rb Rc), (rl Rc, rb Rc))). cbn. tauto. }
  assert (Hleft : ~ near_seg (IP (rl Rc, rb Rc)) (IP (rl Rc, rt Rc)) q 4).
  { apply (Hfar ((rl Rc, rb Rc), (rl Rc, rt Rc))). cbn. tauto. }
  set (l := IZR (rl Rc)) in *. set (r := IZR (rr Rc)) in *.
  set (t := IZR (rt Rc)) in *. set (b := IZR (rb Rc)) in *.
  set (x' := clampR l r (fst q)). set (y' := clampR t b (snd q)).
  assert (Hx' : l <= x' <= r) by (apply clampR_range; lra).
  assert (Hy' : t <= y' <= b) by (apply clampR_range; lra).
  assert (Hd' : (fst q - x') * (fst q - x') + (snd q - y') * (snd q - y') <= 4).
  { pose proof (clampR_nearest l r (fst q) cx Hcx) as Ha.
    pose proof (clampR_nearest t b (snd q) cy Hcy) as Hb.
    fold x' in Ha. fold y' in Hb. lra. }
  unfold strictly_inside. fold l r t b.
  destruct (Rlt_le_dec l (fst q)) as [H1|H1].
  2:{ exfalso. apply Hleft. eapply near_seg_mono; [exact Hd'|].
      assert (E : x' = l) by (apply clampR_low; exact H1). rewrite E.
      apply (on_vert (rl Rc) (rb Rc) (rt Rc) q y'); fold t b; lra. }
  destruct (Rlt_le_dec (fst q) r) as [H2|H2].
  2:{ exfalso. apply Hright. eapply near_seg_mono; [exact Hd'|].
      assert (E : x' = r) by (apply clampR_high; lra). rewrite E.
      apply (on_vert (rr Rc) (rt Rc) (rb Rc) q y'); fold t b; lra. }
  destruct (Rlt_le_dec t (snd q)) as [H3|H3].
  2:{ exfalso. apply Htop. eapply near_seg_mono; [exact Hd'|].
      assert (E : y' = t) by (apply clampR_low; exact H3). rewrite E.
      apply (on_horiz (rt Rc) (rl Rc) (rr Rc) q x'); fold l r; lra. }
  destruct (Rlt_le_dec (snd q) b) as [H4|H4].
  2:{ exfalso. apply Hbot. eapply near_seg_mono; [exact Hd'|].
      assert (E : y' = b) by (apply clampR_high; lra). rewrite E.
      apply (on_horiz (rb Rc) (rr Rc) (rl Rc) q x'); fold l r; lra. }
  lra.
Qed.

(* ------------------------------------------------------------------ *)
(* 7. the main theorem                                                  *)

Theorem rectline_sound : forall R a b OS t,
  rectline_check R a b OS = true -> (0 <= t <= 1)%R ->
  far (rect_sides R) 4 (seg_pt a b t) ->
  (covered a b OS t <-> strictly_inside R (seg_pt a b t)).
Proof.
  intros Rc a b OS t H Ht Hfar.
  unfold rectline_check in H. cbv zeta in H.
  apply andb_true_iff in H. destruct H as [H HB].
  apply andb_true_iff in H. destruct H as [H HA].
  apply andb_true_iff in H. destruct H as [Hlr Htb].
  apply Z.ltb_lt in Hlr. apply Z.ltb_lt in Htb.
  split.
  - (* covered -> strictly inside *)
    intros [lo [hi [HJ Hlh]]].
    rewrite forallb_forall in HB. specialize (HB _ HJ). cbn [fst snd] in HB.
    apply andb_true_iff in HB. destruct HB as [B1 B2].
    apply near_rectQ_sound in B1; [|lia|lia].
    apply near_rectQ_sound in B2; [|lia|lia].
    rewrite QP_q_at, Q2R_four in B1, B2.
    apply near_rect_far_inside; [exact Hlr|exact Htb| |exact Hfar].
    eapply near_rect_seg; [exact Hlh|exact B1|exact B2].
  - (* strictly inside -> covered *)
    intro Hin.
    destruct (inside_far_shrunk Rc _ Hin Hfar) as [Hx Hy].
    destruct (box_range_sound a b (zq (rl Rc + 2)) (zq (rr Rc - 2))
                (zq (rt Rc + 2)) (zq (rb Rc - 2)) t Ht) as [t1 [t2 [E Ht12]]].
    + rewrite !Q2R_zq, plus_IZR, minus_IZR. exact Hx.
    + rewrite !Q2R_zq, plus_IZR, minus_IZR. exact Hy.
    + rewrite E in HA. apply existsb_exists in HA.
      destruct HA as [[lo hi] [HJ HJ2]]. cbn [fst snd] in HJ2.
      apply andb_true_iff in HJ2. destruct HJ2 as [J1 J2].
      apply Qle_bool_true_le in J1. apply Qle_bool_true_le in J2.
      exists lo, hi. split; [exact HJ|lra].
Qed.

(* ------------------------------------------------------------------ *)
(* 8. the vertex conditions                                             *)

Lemma verts_in_rect_sound : forall Rc OS,
  verts_in_rect Rc OS = true ->
  forall p path, In path OS -> In p path ->
  (rl Rc - 1 <= px p <= rr Rc + 1 /\ rt Rc - 1 <= py p <= rb Rc + 1)%Z.
Proof.
  intros Rc OS H p path HP Hp. unfold verts_in_rect in H.
  rewrite forallb_forall in H. specialize (H _ HP).
  rewrite forallb_forall in H. specialize (H _ Hp).
  apply andb_true_iff in H. destruct H as [H H4].
  apply andb_true_iff in H. destruct H as [H H3].
  apply andb_true_iff in H. destruct H as [H1 H2].
  apply Z.leb_le in H1, H2, H3, H4. lia.
Qed.

Lemma verts_on_lines_sound : forall Lines OS,
  verts_on_lines Lines OS = true ->
  forall p path, In path OS -> In p path ->
  exists e, In e (flat_map edges_open Lines) /\
            near_seg (IP (fst e)) (IP (snd e)) (IP p) 1.
Proof.
  intros Lines OS H p path HP Hp. unfold verts_on_lines in H.
  rewrite forallb_forall in H. specialize (H _ HP).
  rewrite forallb_forall in H. specialize (H _ Hp).
  apply existsb_exists in H. destruct H as [e [He Hn]].
  exists e. split; [exact He|].
  apply near_segQ_sound in Hn.
  unfold QP in Hn. cbn [fst snd] in Hn. rewrite !Q2R_zq, Q2R_one in Hn.
  exact Hn.
Qed.

Print Assumptions rectline_sound.
