(* Cert/RegionSpec.v — the vocabulary in which the soundness of the region
   checker is stated (definitions only). *)
From Coq Require Import Reals QArith Qreals ZArith List Bool.
From Clip Require Import Base.Int64 Model.Arith Base.Geom Cert.Region.
Import ListNotations.
Open Scope R_scope.

Definition QP (c : qpt) : rpt := (Q2R (fst c), Q2R (snd c)).

(* the closed "trapezoid" T as the image of the unit square under the
   bilinear map: s runs from the bottom (ty0) to the top (ty1), u from the
   left boundary to the right boundary *)
Definition in_trap (T : trap) (q : rpt) : Prop :=
  exists s u, 0 <= s <= 1 /\ 0 <= u <= 1 /\
    snd q = (1 - s) * Q2R (ty0 T) + s * Q2R (ty1 T) /\
    fst q = (1 - u) * ((1 - s) * Q2R (xl0 T) + s * Q2R (xl1 T))
            + u * ((1 - s) * Q2R (xr0 T) + s * Q2R (xr1 T)).

(* winding number of the edges tagged k *)
Definition wnk (Es : list (nat * edge)) (k : nat) (q : rpt) : Z :=
  zsum (map (fun te => if Nat.eqb (fst te) k then cre (snd te) q else 0%Z) Es).

Definition wnvec (n : nat) (Es : list (nat * edge)) (q : rpt) : list Z :=
  map (fun k => wnk Es k q) (seq 0 n).

Definition cover_sound_stmt : Prop :=
  forall fuel rm E r2 T q,
    cover fuel rm E r2 T = true -> in_trap T q -> ~ far E (Q2R r2) q.

Definition slab_sound_stmt : Prop :=
  forall n Es E r2 rm fuel f y0 y1 q,
    slab_check n Es E r2 rm fuel f y0 y1 = true ->
    Q2R y0 <= snd q < Q2R y1 ->
    far E (Q2R r2) q ->
    f (wnvec n Es q) = true.

Definition region_tagged_sound_stmt : Prop :=
  forall n Es E r2 rm fuel f Y q,
    region_check_tagged n Es E r2 rm fuel f Y = true ->
    far E (Q2R r2) q ->
    f (wnvec n Es q) = true.

Definition region_sound_stmt : Prop :=
  forall Ps E r2 rm fuel f Y q,
    region_check Ps E r2 rm fuel f Y = true ->
    far E (Q2R r2) q ->
    f (map (fun P => wn P q) Ps) = true.
