(* Cert/RegionTop.v — from the soundness of one slab to the soundness of the
   whole region checker (tagged and untagged forms). *)
From Coq Require Import Reals QArith Qreals ZArith List Bool Lra Lia.
From Clip Require Import Base.Int64 Model.Arith Base.Geom Cert.Region Cert.RegionSpec.
Import ListNotations.
Open Scope R_scope.

(* ---------- small bridges ---------- *)

Lemma Q2R_zq : forall z, Q2R (zq z) = IZR z.
Proof.
  intro z. unfold zq, Q2R, inject_Z. cbn [Qnum Qden].
  rewrite Rinv_1. apply Rmult_1_r.
Qed.

Lemma Qle_bool_Rle : forall a b, Qle_bool a b = true -> Q2R a <= Q2R b.
Proof.
  intros a b Hab. apply Qle_Rle. apply Qle_bool_iff. exact Hab.
Qed.

Lemma last_cons_default : forall (A : Type) (l : list A) (a d : A),
  last (a :: l) d = last l a.
Proof.
  intros A l. induction l as [|b l IH]; intros a d.
  - reflexivity.
  - change (last (a :: b :: l) d) with (last (b :: l) d).
    rewrite IH. symmetry. apply IH.
Qed.

Lemma map_zero_repeat : forall (A : Type) (l : list A),
  map (fun _ => 0%Z) l = repeat 0%Z (length l).
Proof.
  intros A l. induction l as [|a l IH].
  - reflexivity.
  - cbn [map length repeat]. rewrite IH. reflexivity.
Qed.

Lemma zsum_map_zero : forall (A : Type) (g : A -> Z) (l : list A),
  (forall x, In x l -> g x = 0%Z) -> zsum (map g l) = 0%Z.
Proof.
  intros A g l. induction l as [|a l IH]; intro Hz.
  - reflexivity.
  - cbn [map]. unfold zsum. cbn [fold_right]. fold (zsum (map g l)).
    rewrite IH.
    + rewrite Hz by (left; reflexivity). reflexivity.
    + intros x Hx. apply Hz. right. exact Hx.
Qed.

Lemma zsum_app : forall l1 l2, zsum (l1 ++ l2) = (zsum l1 + zsum l2)%Z.
Proof.
  intros l1 l2. induction l1 as [|a l1 IH].
  - reflexivity.
  - cbn [app]. unfold zsum in *. cbn [fold_right]. rewrite IH. ring.
Qed.

(* ---------- outside the certified y-range every crossing is 0 ---------- *)

Lemma cre_outside : forall ya yb e q,
  within_bounds ya yb e = true ->
  (snd q < Q2R ya \/ Q2R yb <= snd q) ->
  cre e q = 0%Z.
Proof.
  intros ya yb e q Hwb Hout.
  unfold within_bounds in Hwb.
  apply orb_true_iff in Hwb.
  unfold cre, cr, IP. cbn [fst snd].
  destruct Hwb as [Hh | Hb].
  - unfold horiz in Hh. apply Z.eqb_eq in Hh. rewrite Hh.
    destruct (Rle_dec (IZR (py (snd e))) (snd q)) as [H1|H1].
    + destruct (Rlt_dec (snd q) (IZR (py (snd e)))) as [H2|H2]; [exfalso; lra | reflexivity].
    + destruct (Rle_dec (IZR (py (snd e))) (snd q)) as [H2|H2]; [exfalso; lra | reflexivity].
  - apply andb_true_iff in Hb. destruct Hb as [Hlo Hhi].
    apply Qle_bool_Rle in Hlo. apply Qle_bool_Rle in Hhi.
    rewrite Q2R_zq in Hlo. rewrite Q2R_zq in Hhi.
    unfold ylo in Hlo. unfold yhi in Hhi.
    set (a := py (fst e)) in *. set (b := py (snd e)) in *.
    assert (Hma : IZR (Z.min a b) <= IZR a) by (apply IZR_le; apply Z.le_min_l).
    assert (Hmb : IZR (Z.min a b) <= IZR b) by (apply IZR_le; apply Z.le_min_r).
    assert (HMa : IZR a <= IZR (Z.max a b)) by (apply IZR_le; apply Z.le_max_l).
    assert (HMb : IZR b <= IZR (Z.max a b)) by (apply IZR_le; apply Z.le_max_r).
    destruct (Rle_dec (IZR a) (snd q)) as [H1|H1].
    + destruct (Rlt_dec (snd q) (IZR b)) as [H2|H2]; [exfalso; lra | reflexivity].
    + destruct (Rle_dec (IZR b) (snd q)) as [H2|H2]; [exfalso; lra | reflexivity].
Qed.

Lemma wnk_outside : forall ya yb Es k q,
  forallb (fun te : nat * edge => within_bounds ya yb (snd te)) Es = true ->
  (snd q < Q2R ya \/ Q2R yb <= snd q) ->
  wnk Es k q = 0%Z.
Proof.
  intros ya yb Es k q Hall Hout.
  unfold wnk. apply zsum_map_zero.
  intros te Hin.
  rewrite forallb_forall in Hall. specialize (Hall te Hin).
  destruct (Nat.eqb (fst te) k); [| reflexivity].
  eapply cre_outside; eassumption.
Qed.

Lemma wnvec_outside : forall ya yb n Es q,
  forallb (fun te : nat * edge => within_bounds ya yb (snd te)) Es = true ->
  (snd q < Q2R ya \/ Q2R yb <= snd q) ->
  wnvec n Es q = repeat 0%Z n.
Proof.
  intros ya yb n Es q Hall Hout.
  unfold wnvec.
  rewrite (map_ext (fun k => wnk Es k q) (fun _ => 0%Z)).
  - rewrite map_zero_repeat. rewrite seq_length. reflexivity.
  - intro k. eapply wnk_outside; eassumption.
Qed.

(* ---------- inside the range: locate the slab ---------- *)

Lemma slabs_locate : slab_sound_stmt ->
  forall n Es E r2 rm fuel f Y y0 q,
    slabs_check n Es E r2 rm fuel f y0 Y = true ->
    Q2R y0 <= snd q < Q2R (last Y y0) ->
    far E (Q2R r2) q ->
    f (wnvec n Es q) = true.
Proof.
  intros Hslab n Es E r2 rm fuel f Y.
  induction Y as [|y1 Y IH]; intros y0 q Hchk Hrng Hfar.
  - cbn [last] in Hrng. exfalso. lra.
  - cbn [slabs_check] in Hchk. apply andb_true_iff in Hchk.
    destruct Hchk as [Hs Hrest].
    rewrite last_cons_default in Hrng.
    destruct (Rlt_le_dec (snd q) (Q2R y1)) as [Hlt | Hge].
    + eapply Hslab; [exact Hs | | exact Hfar]. lra.
    + apply (IH y1 q Hrest); [| exact Hfar]. lra.
Qed.

Theorem region_tagged_sound : slab_sound_stmt -> region_tagged_sound_stmt.
Proof.
  intros Hslab n Es E r2 rm fuel f Y q Hchk Hfar.
  destruct Y as [|ya Y'].
  - cbn [region_check_tagged] in Hchk. discriminate Hchk.
  - cbn [region_check_tagged] in Hchk.
    apply andb_true_iff in Hchk. destruct Hchk as [Hchk Hslabs].
    apply andb_true_iff in Hchk. destruct Hchk as [Hzero Hwb].
    destruct (Rlt_le_dec (snd q) (Q2R ya)) as [Hlow | Hlow].
    + rewrite (wnvec_outside ya (last Y' ya) n Es q Hwb); [exact Hzero | left; exact Hlow].
    + destruct (Rlt_le_dec (snd q) (Q2R (last Y' ya))) as [Hhigh | Hhigh].
      * eapply (slabs_locate Hslab); [exact Hslabs | | exact Hfar]. lra.
      * rewrite (wnvec_outside ya (last Y' ya) n Es q Hwb); [exact Hzero | right; exact Hhigh].
Qed.

(* ---------- untagged form ---------- *)

Lemma wnk_app : forall l1 l2 k q, wnk (l1 ++ l2) k q = (wnk l1 k q + wnk l2 k q)%Z.
Proof.
  intros l1 l2 k q. unfold wnk. rewrite map_app. apply zsum_app.
Qed.

Lemma wnk_tag_same : forall (L : list edge) k q,
  wnk (map (fun e => (k, e)) L) k q = wn_edges L q.
Proof.
  intros L k q. unfold wnk, wn_edges. rewrite map_map. cbn [fst snd].
  rewrite Nat.eqb_refl. reflexivity.
Qed.

Lemma wnk_tag_diff : forall (L : list edge) k k' q,
  k' <> k -> wnk (map (fun e => (k', e)) L) k q = 0%Z.
Proof.
  intros L k k' q Hne. unfold wnk. rewrite map_map. cbn [fst snd].
  apply zsum_map_zero. intros e _.
  destruct (Nat.eqb k' k) eqn:Heq; [| reflexivity].
  apply Nat.eqb_eq in Heq. contradiction.
Qed.

Lemma tag_all_ge : forall Ps k0 te, In te (tag_all k0 Ps) -> (k0 <= fst te)%nat.
Proof.
  intro Ps. induction Ps as [|P tl IH]; intros k0 te Hin.
  - contradiction.
  - cbn [tag_all] in Hin. apply in_app_or in Hin. destruct Hin as [Hin | Hin].
    + apply in_map_iff in Hin. destruct Hin as [e [He _]]. subst te. cbn [fst]. lia.
    + apply IH in Hin. lia.
Qed.

Lemma wnk_tag_all_lt : forall Ps k0 k q, (k < k0)%nat -> wnk (tag_all k0 Ps) k q = 0%Z.
Proof.
  intros Ps k0 k q Hlt. unfold wnk. apply zsum_map_zero.
  intros te Hin. apply tag_all_ge in Hin.
  destruct (Nat.eqb (fst te) k) eqn:Heq; [| reflexivity].
  apply Nat.eqb_eq in Heq. lia.
Qed.

Lemma wnvec_tag_all_gen : forall Ps k0 q,
  map (fun k => wnk (tag_all k0 Ps) k q) (seq k0 (length Ps)) = map (fun P => wn P q) Ps.
Proof.
  intro Ps. induction Ps as [|P tl IH]; intros k0 q.
  - reflexivity.
  - cbn [length seq map tag_all]. f_equal.
    + rewrite wnk_app. rewrite wnk_tag_same.
      rewrite wnk_tag_all_lt by lia. unfold wn. ring.
    + rewrite <- (IH (S k0) q).
      apply map_ext_in. intros k Hk. apply in_seq in Hk.
      rewrite wnk_app. rewrite wnk_tag_diff by lia. reflexivity.
Qed.

Lemma wnvec_tag_all : forall Ps q,
  wnvec (length Ps) (tag_all 0 Ps) q = map (fun P => wn P q) Ps.
Proof.
  intros Ps q. unfold wnvec. apply wnvec_tag_all_gen.
Qed.

Theorem region_sound_from_slab : slab_sound_stmt -> region_sound_stmt.
Proof.
  intros Hslab Ps E r2 rm fuel f Y q Hchk Hfar.
  rewrite <- wnvec_tag_all.
  unfold region_check in Hchk.
  exact (region_tagged_sound Hslab _ _ _ _ _ _ _ _ _ Hchk Hfar).
Qed.

Print Assumptions region_sound_from_slab.
