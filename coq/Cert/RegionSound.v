(* Cert/RegionSound.v — assembly of the soundness of the region checker:
   if the executable check accepts, the decision function holds of the
   winding vector at EVERY real point farther than sqrt(r2) from the band. *)
From Coq Require Import Reals QArith Qreals ZArith List Bool Lra.
From Clip Require Import Base.Int64 Model.Arith Base.Geom Cert.Region Cert.RegionSpec
     Cert.CoverSound Cert.SlabSound Cert.RegionTop Cert.Instances.
Import ListNotations.

Theorem slab_sound_closed : slab_sound_stmt.
Proof. exact (slab_sound cover_sound). Qed.

Theorem region_sound : region_sound_stmt.
Proof. exact (region_sound_from_slab slab_sound_closed). Qed.

Theorem gen_sound : forall sp rm fuel r2 Ps BandC BandO Y q,
  gen_check sp rm fuel r2 Ps BandC BandO Y = true ->
  far (band_edges BandC BandO) (Q2R r2) q ->
  fdec sp (map (fun P => wn P q) Ps) = true.
Proof.
  intros sp rm fuel r2 Ps BandC BandO Y q H Hfar.
  exact (region_sound Ps (band_edges BandC BandO) r2 rm fuel (fdec sp) Y q H Hfar).
Qed.

Lemma Q2R_4 : Q2R 4 = 4%R.
Proof. unfold Q2R. simpl. lra. Qed.

Lemma edges_of_paths_app A B : edges_of_paths (A ++ B) = edges_of_paths A ++ edges_of_paths B.
Proof. unfold edges_of_paths. apply flat_map_app. Qed.

Lemma band_closed_only A : band_edges A [] = edges_of_paths A.
Proof. unfold band_edges. simpl. apply app_nil_r. Qed.
