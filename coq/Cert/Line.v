(* Cert/Line.v — executable checker for open subject segments against closed
   path sets (C09), definitions only.  For one open subject segment a-b it
   decides, for EVERY parameter t, whether "the point a + t(b-a) is covered by
   the open solution" agrees with a decision function g of the winding vector
   of the closed sets at that point, away from the closed edges.
   Soundness: LineSound.v. *)
From Coq Require Import QArith ZArith List Bool.
From Clip Require Import Base.Int64 Model.Arith Base.Geom Cert.Region Cert.RectLine.
Import ListNotations.
Open Scope Q_scope.

(* ---- exact pointwise evaluation of the winding vector at a rational point ---- *)
Definition crQ (e : edge) (c : qpt) : Z :=
  let ay := zq (py (fst e)) in
  let by_ := zq (py (snd e)) in
  if Qle_bool ay (snd c) && negb (Qle_bool by_ (snd c)) then      (* a.y <= y < b.y *)
    (if negb (Qle_bool (fst c) (xatQ e (snd c))) then (-1)%Z else 0%Z)
  else if Qle_bool by_ (snd c) && negb (Qle_bool ay (snd c)) then (* b.y <= y < a.y *)
    (if negb (Qle_bool (fst c) (xatQ e (snd c))) then 1%Z else 0%Z)
  else 0%Z.

Definition wnkQ (Es : list (nat * edge)) (k : nat) (c : qpt) : Z :=
  zsum (map (fun te => if Nat.eqb (fst te) k then crQ (snd te) c else 0%Z) Es).
Definition wnvecQ (n : nat) (Es : list (nat * edge)) (c : qpt) : list Z :=
  map (fun k => wnkQ Es k c) (seq 0 n).

(* is the rational point within sqrt r2 of some edge of E ? *)
Definition near_anyQ (E : list edge) (r2 : Q) (c : qpt) : bool := existsb (fun e => near_segQ e r2 c) E.

(* ---- coverage tests on a closed parameter interval [s0, s1] of the segment a-b ---- *)
Section Piece.
  Variable a b : pt.
  Variable E : list edge.
  Variable r2 : Q.
  Variable cov : list (Q * Q).
  Variable want : bool.              (* g vec : should the piece be covered ? *)

  (* both ends within sqrt r2 of ONE band edge: by convexity the whole piece is *)
  Definition near_both (s0 s1 : Q) : bool :=
    existsb (fun e => near_segQ e r2 (q_at a b s0) && near_segQ e r2 (q_at a b s1)) E.

  Definition piece_test (s0 s1 : Q) : bool :=
    (if want then existsb (fun J => Qle_bool (fst J) s0 && Qle_bool s1 (snd J)) cov
     else forallb (fun J => negb (Qle_bool s0 (snd J)) || negb (Qle_bool (fst J) s1)) cov)
    || near_both s0 s1.

  Fixpoint piece_ok (fuel : nat) (s0 s1 : Q) : bool :=
    piece_test s0 s1 ||
    match fuel with
    | O => false
    | S f => let m := Qred ((s0 + s1) / 2) in piece_ok f s0 m && piece_ok f m s1
    end.

  (* a chain s_0 <= s_1 <= ... of split points, every consecutive piece ok *)
  Fixpoint chain_ok (fuel : nat) (s0 : Q) (l : list Q) : bool :=
    match l with
    | [] => true
    | s1 :: t => Qle_bool s0 s1 && piece_ok fuel s0 s1 && chain_ok fuel s1 t
    end.
End Piece.

(* candidate split points: the end points of the coverage intervals that fall
   strictly inside (lo, hi), in increasing order (simple insertion sort; nothing
   is assumed about it: chain_ok re-verifies the order) *)
Fixpoint qinsert (x : Q) (l : list Q) : list Q :=
  match l with
  | [] => [x]
  | y :: t => if Qle_bool x y then x :: l else y :: qinsert x t
  end.
Definition splits_between (lo hi : Q) (cov : list (Q * Q)) : list Q :=
  let ends := flat_map (fun J => [fst J; snd J]) cov in
  let inside := filter (fun s => negb (Qle_bool s lo) && negb (Qle_bool hi s)) ends in
  fold_right qinsert [] inside.

(* ---- a non-horizontal subject segment a-b with a.y < b.y, in the slab [y0, y1] ---- *)
Inductive side := SLeft | SRight | SOn | SCross.
Definition classify (sx0 sx1 : Q) (it : item) : side :=
  let l0 := Qle_bool (ix0 it) sx0 in
  let l1 := Qle_bool (ix1 it) sx1 in
  let g0 := Qle_bool sx0 (ix0 it) in
  let g1 := Qle_bool sx1 (ix1 it) in
  if l0 && g0 && l1 && g1 then SOn
  else if l0 && l1 then SLeft
  else if g0 && g1 then SRight
  else SCross.

Definition no_cross (sx0 sx1 : Q) (items : list item) : bool :=
  forallb (fun it => match classify sx0 sx1 it with SCross => false | _ => true end) items.

Definition left_vec (n : nat) (sx0 sx1 : Q) (items : list item) : list Z :=
  fold_left (fun v it => match classify sx0 sx1 it with SLeft => vadd (itag it) (idir it) v | _ => v end)
            items (repeat 0%Z n).

Definition param_at_y (a b : pt) (y : Q) : Q := Qred ((y - zq (py a)) / zq (py b - py a)).

(* slab [y0,y1] relative to the y-range [a.y, b.y] of the segment: inside, or disjoint *)
Definition seg_slab_check (n : nat) (Es : list (nat * edge)) (E : list edge) (r2 : Q) (fuel : nat)
           (g : list Z -> bool) (cov : list (Q * Q)) (a b : pt) (y0 y1 : Q) : bool :=
  negb (Qle_bool y1 y0) &&
  forallb (fun te => spanning y0 y1 (snd te) || disjointb y0 y1 (snd te)) Es &&
  forallb (fun te => (fst te <? n)%nat) Es &&
  if Qle_bool y1 (zq (py a)) || Qle_bool (zq (py b)) y0 then true          (* slab misses the segment *)
  else
    Qle_bool (zq (py a)) y0 && Qle_bool y1 (zq (py b)) &&                   (* slab inside the segment's range *)
    let items := map (mk_item y0 y1) (filter (fun te => spanning y0 y1 (snd te)) Es) in
    let sx0 := xatQ (a, b) y0 in
    let sx1 := xatQ (a, b) y1 in
    no_cross sx0 sx1 items &&
    let vec := left_vec n sx0 sx1 items in
    let t0 := param_at_y a b y0 in
    let t1 := param_at_y a b y1 in
    chain_ok a b E r2 cov (g vec) fuel t0 (splits_between t0 t1 cov ++ [t1]).

Fixpoint seg_slabs_check (n : nat) (Es : list (nat * edge)) (E : list edge) (r2 : Q) (fuel : nat)
         (g : list Z -> bool) (cov : list (Q * Q)) (a b : pt) (y0 : Q) (Y : list Q) : bool :=
  match Y with
  | [] => true
  | y1 :: Y' => seg_slab_check n Es E r2 fuel g cov a b y0 y1 && seg_slabs_check n Es E r2 fuel g cov a b y1 Y'
  end.

(* a single parameter decided pointwise (used for t = 1 and for degenerate situations) *)
Definition point_ok (n : nat) (Es : list (nat * edge)) (E : list edge) (r2 : Q)
           (g : list Z -> bool) (cov : list (Q * Q)) (a b : pt) (t : Q) : bool :=
  let c := q_at a b t in
  near_anyQ E r2 c ||
  Bool.eqb (existsb (fun J => Qle_bool (fst J) t && Qle_bool t (snd J)) cov) (g (wnvecQ n Es c)).

(* the whole upward segment: Y must start at or below a.y and end at or above b.y *)
Definition upseg_check (n : nat) (Es : list (nat * edge)) (E : list edge) (r2 : Q) (fuel : nat)
           (g : list Z -> bool) (cov : list (Q * Q)) (a b : pt) (Y : list Q) : bool :=
  (py a <? py b)%Z &&
  match Y with
  | [] => false
  | ya :: Y' =>
      Qle_bool ya (zq (py a)) && Qle_bool (zq (py b)) (last Y' ya) &&
      seg_slabs_check n Es E r2 fuel g cov a b ya Y' &&
      point_ok n Es E r2 g cov a b 1
  end.

(* ---- a horizontal subject segment (a.y = b.y, a.x < b.x), decided on a chain of split
   parameters T supplied by the certificate: inside each piece no closed edge crosses the
   segment's line, so the winding vector is the one of the piece's midpoint ---- *)
Definition crosses_between (y : Q) (x0 x1 : Q) (e : edge) : bool :=
  (* does the non-horizontal edge e meet the open piece (x0,x1) at height y ? (half-open span) *)
  let ay := zq (py (fst e)) in
  let by_ := zq (py (snd e)) in
  let spans := (Qle_bool ay y && negb (Qle_bool by_ y)) || (Qle_bool by_ y && negb (Qle_bool ay y)) in
  spans && negb (Qle_bool (xatQ e y) x0) && negb (Qle_bool x1 (xatQ e y)).

Fixpoint hchain_ok (n : nat) (Es : list (nat * edge)) (E : list edge) (r2 : Q) (fuel : nat)
         (g : list Z -> bool) (cov : list (Q * Q)) (a b : pt) (s0 : Q) (T : list Q) : bool :=
  match T with
  | [] => true
  | s1 :: T' =>
      Qle_bool s0 s1 &&
      (let y := zq (py a) in
       let x0 := fst (q_at a b s0) in
       let x1 := fst (q_at a b s1) in
       forallb (fun te => negb (crosses_between y x0 x1 (snd te))) Es &&
       let m := Qred ((s0 + s1) / 2) in
       let vec := wnvecQ n Es (q_at a b m) in
       piece_ok a b E r2 cov (g vec) fuel s0 s1) &&
      hchain_ok n Es E r2 fuel g cov a b s1 T'
  end.

Definition hseg_check (n : nat) (Es : list (nat * edge)) (E : list edge) (r2 : Q) (fuel : nat)
           (g : list Z -> bool) (cov : list (Q * Q)) (a b : pt) (T : list Q) : bool :=
  (py a =? py b)%Z && (px a <? px b)%Z &&
  forallb (fun te => (fst te <? n)%nat) Es &&
  match T with
  | [] => false
  | t0 :: T' => Qeq_bool t0 0 && Qeq_bool (last T' t0) 1 && hchain_ok n Es E r2 fuel g cov a b t0 T'
  end.

(* ---- C09: one open subject segment against closed subject S and clip C ---- *)
Definition want_open (ct : cliptype) (fr : fillrule) (v : list Z) : bool :=
  let s := filled fr (nth0 v 0) in
  let c := filled fr (nth0 v 1) in
  match ct with
  | Intersection => c
  | Union => negb s && negb c
  | Difference => negb c
  | Xor => negb c
  | NoClip => false
  end.

Definition flip (p : pt) : pt := p.

(* orient the segment upward (or rightward when horizontal); coverage is symmetric under t -> 1-t
   because cov_intervals is computed for the re-oriented segment *)
Definition c09_seg_check (ct : cliptype) (fr : fillrule) (fuel : nat) (S C OS : paths)
           (a b : pt) (Y T : list Q) : bool :=
  let Es := tag_all 0 [S; C] in
  let E := edges_of_paths S ++ edges_of_paths C in
  let g := want_open ct fr in
  if (py a =? py b)%Z then
    if (px a =? px b)%Z then true
    else let '(a', b') := if (px a <? px b)%Z then (a, b) else (b, a) in
         hseg_check 2 Es E 4 fuel g (cov_intervals a' b' 2 OS) a' b' T
  else let '(a', b') := if (py a <? py b)%Z then (a, b) else (b, a) in
       upseg_check 2 Es E 4 fuel g (cov_intervals a' b' 2 OS) a' b' Y.
