(* Base/Int64.v — Go's fixed-width integer arithmetic, written out over Z.
   Every place where the Go code computes in int64/uint64 the models use
   these wrappers explicitly, so overflow behaviour is part of the model. *)
From Coq Require Import ZArith Lia List Bool.
Import ListNotations.
Open Scope Z_scope.

Definition two31 : Z := 2147483648.
Definition two32 : Z := 4294967296.
Definition two53 : Z := 9007199254740992.
Definition two63 : Z := 9223372036854775808.
Definition two64 : Z := 18446744073709551616.
Definition maxint64 : Z := 9223372036854775807.

Lemma two32_eq : two32 = 2 ^ 32. Proof. reflexivity. Qed.
Lemma two53_eq : two53 = 2 ^ 53. Proof. reflexivity. Qed.
Lemma two63_eq : two63 = 2 ^ 63. Proof. reflexivity. Qed.
Lemma two64_eq : two64 = 2 ^ 64. Proof. reflexivity. Qed.

(* signed 64-bit wrap-around *)
Definition wrap64 (z : Z) : Z := (z + two63) mod two64 - two63.
Definition in64 (z : Z) : Prop := - two63 <= z < two63.
Definition in64b (z : Z) : bool := (- two63 <=? z) && (z <? two63).

Definition add64 (a b : Z) : Z := wrap64 (a + b).
Definition sub64 (a b : Z) : Z := wrap64 (a - b).
Definition mul64 (a b : Z) : Z := wrap64 (a * b).
Definition neg64 (a : Z) : Z := wrap64 (- a).

(* unsigned 64-bit *)
Definition u64 (z : Z) : Z := z mod two64.
Definition inu64 (z : Z) : Prop := 0 <= z < two64.
Definition uadd64 (a b : Z) : Z := u64 (a + b).
Definition umul64 (a b : Z) : Z := u64 (a * b).

Lemma wrap64_range z : in64 (wrap64 z).
Proof.
  unfold in64, wrap64.
  pose proof (Z.mod_pos_bound (z + two63) two64 ltac:(reflexivity)).
  unfold two63, two64 in *. lia.
Qed.

Lemma wrap64_id z : in64 z -> wrap64 z = z.
Proof.
  unfold in64, wrap64. intros H.
  rewrite Z.mod_small; unfold two63, two64 in *; lia.
Qed.

Lemma in64b_spec z : in64b z = true <-> in64 z.
Proof. unfold in64b, in64. rewrite andb_true_iff, Z.leb_le, Z.ltb_lt. tauto. Qed.

Lemma wrap64_eqm z : (wrap64 z) mod two64 = z mod two64.
Proof.
  unfold wrap64.
  rewrite Zminus_mod, Z.mod_mod by (unfold two64; lia).
  rewrite <- Zminus_mod. f_equal. lia.
Qed.

Lemma wrap64_congr a b : a mod two64 = b mod two64 -> wrap64 a = wrap64 b.
Proof.
  intros H. unfold wrap64. f_equal.
  rewrite (Zplus_mod a), (Zplus_mod b), H. reflexivity.
Qed.

Lemma wrap64_wrap z : wrap64 (wrap64 z) = wrap64 z.
Proof. apply wrap64_id, wrap64_range. Qed.

Lemma wrap64_add_l a b : wrap64 (wrap64 a + b) = wrap64 (a + b).
Proof.
  apply wrap64_congr. rewrite Zplus_mod, wrap64_eqm, <- Zplus_mod. reflexivity.
Qed.

Lemma wrap64_add_r a b : wrap64 (a + wrap64 b) = wrap64 (a + b).
Proof. rewrite Z.add_comm, wrap64_add_l. f_equal. lia. Qed.

Lemma wrap64_mul_l a b : wrap64 (wrap64 a * b) = wrap64 (a * b).
Proof.
  apply wrap64_congr. rewrite Zmult_mod, wrap64_eqm, <- Zmult_mod. reflexivity.
Qed.

Lemma wrap64_mul_r a b : wrap64 (a * wrap64 b) = wrap64 (a * b).
Proof. rewrite Z.mul_comm, wrap64_mul_l. f_equal. lia. Qed.

Lemma wrap64_sub_l a b : wrap64 (wrap64 a - b) = wrap64 (a - b).
Proof. unfold Z.sub. apply wrap64_add_l. Qed.

Lemma wrap64_sub_r a b : wrap64 (a - wrap64 b) = wrap64 (a - b).
Proof.
  apply wrap64_congr. rewrite Zminus_mod, wrap64_eqm, <- Zminus_mod. reflexivity.
Qed.

(* float64(int64 x) as an exact integer: round to 53 significant bits,
   nearest, ties to even.  Every float64 of magnitude >= 2^53 is an integer
   and every integer of magnitude <= 2^53 is a float64, so the value of the
   conversion is always an integer and this function is the conversion. *)
Definition round53 (x : Z) : Z :=
  let a := Z.abs x in
  let n := Z.log2 a + 1 in
  if n <=? 53 then x
  else
    let e := n - 53 in
    let q := Z.shiftr a e in
    let r := a - Z.shiftl q e in
    let half := Z.shiftl 1 (e - 1) in
    let q' := if r <? half then q
              else if half <? r then q + 1
              else if Z.even q then q else q + 1 in
    Z.sgn x * Z.shiftl q' e.

Lemma round53_small x : Z.abs x < two53 -> round53 x = x.
Proof.
  intros H. unfold round53.
  destruct (Z.eq_dec x 0) as [->|Hx]; [reflexivity|].
  assert (Hl : Z.log2 (Z.abs x) < 53).
  { apply Z.log2_lt_pow2; [lia|]. exact H. }
  destruct (Z.leb_spec (Z.log2 (Z.abs x) + 1) 53); [reflexivity|lia].
Qed.

(* uint64(math.Abs(float64(x))) for int64 x *)
Definition absf_u64 (x : Z) : Z := u64 (Z.abs (round53 x)).

Lemma absf_u64_small x : Z.abs x < two53 -> absf_u64 x = Z.abs x.
Proof.
  intros H. unfold absf_u64. rewrite round53_small by exact H.
  unfold u64. apply Z.mod_small. unfold two53, two64 in *. lia.
Qed.
