(* Base/Geom.v — the specification vocabulary: winding numbers of integer
   path sets at REAL points of the plane, fill rules, clip types, and the
   "farther than r from every edge" predicate.  This file is part of the
   trusted reading of the properties; it contains definitions only. *)
From Coq Require Import Reals ZArith List Bool Lra.
From Clip Require Import Base.Int64 Model.Arith.
Import ListNotations.
Open Scope R_scope.

Definition rpt : Type := (R * R)%type.
Definition edge : Type := (pt * pt)%type.

Definition IP (p : pt) : rpt := (IZR (px p), IZR (py p)).

(* consecutive pairs of a path; closed paths add the closing pair *)
Fixpoint edges_open (p : path) : list edge :=
  match p with
  | a :: ((b :: _) as tl) => (a, b) :: edges_open tl
  | _ => []
  end.
Definition edges_closed (p : path) : list edge :=
  match p with
  | [] => []
  | a :: _ => edges_open (p ++ [a])
  end.
Definition edges_of_paths (P : paths) : list edge := flat_map edges_closed P.

(* x-coordinate of the line through a,b at height y (a.y <> b.y) *)
Definition xat (a b : rpt) (y : R) : R :=
  fst a + (y - snd a) * (fst b - fst a) / (snd b - snd a).

(* signed crossing of the left-pointing ray from q with the edge a->b,
   half-open rule: the edge spans q when min(a.y,b.y) <= q.y < max(a.y,b.y).
   Upward edges strictly left of q count -1, downward ones +1; hence a
   positively oriented (Area64 > 0) simple polygon has winding +1 inside. *)
Definition cr (a b q : rpt) : Z :=
  if Rle_dec (snd a) (snd q) then
    if Rlt_dec (snd q) (snd b) then
      if Rlt_dec (xat a b (snd q)) (fst q) then (-1)%Z else 0%Z
    else 0%Z
  else
    if Rle_dec (snd b) (snd q) then
      (* snd b <= q.y < snd a *)
      if Rlt_dec (xat a b (snd q)) (fst q) then 1%Z else 0%Z
    else 0%Z.

Definition cre (e : edge) (q : rpt) : Z := cr (IP (fst e)) (IP (snd e)) q.

Definition zsum (l : list Z) : Z := fold_right Z.add 0%Z l.

(* winding number of a set of closed integer paths at a real point *)
Definition wn_edges (E : list edge) (q : rpt) : Z := zsum (map (fun e => cre e q) E).
Definition wn (P : paths) (q : rpt) : Z := wn_edges (edges_of_paths P) q.

(* fill rules and clip types, numbered as in core.go *)
Inductive fillrule := EvenOdd | NonZero | Positive | Negative.
Inductive cliptype := NoClip | Intersection | Union | Difference | Xor.

Definition filled (fr : fillrule) (w : Z) : bool :=
  match fr with
  | EvenOdd => Z.odd w
  | NonZero => negb (w =? 0)%Z
  | Positive => (0 <? w)%Z
  | Negative => (w <? 0)%Z
  end.

Definition expected (ct : cliptype) (s c : bool) : bool :=
  match ct with
  | NoClip => false
  | Intersection => s && c
  | Union => s || c
  | Difference => s && negb c
  | Xor => xorb s c
  end.

(* squared distance from q to the point a + t (b - a) *)
Definition dist2_at (a b q : rpt) (t : R) : R :=
  let x := fst a + t * (fst b - fst a) in
  let y := snd a + t * (snd b - snd a) in
  (fst q - x) * (fst q - x) + (snd q - y) * (snd q - y).

(* q is within sqrt(r2) of the segment a-b *)
Definition near_seg (a b q : rpt) (r2 : R) : Prop :=
  exists t, 0 <= t <= 1 /\ dist2_at a b q t <= r2.

(* q is farther than sqrt(r2) from every edge of E *)
Definition far (E : list edge) (r2 : R) (q : rpt) : Prop :=
  forall e, In e E -> ~ near_seg (IP (fst e)) (IP (snd e)) q r2.
