(* Base/GeomLemmas.v — algebraic facts about the winding-number specification
   of Base/Geom.v: edge reversal, additivity, permutation invariance, path
   reversal / rotation / duplicate vertices, fill-rule symmetries, translation
   invariance, and a sanity check of the sign convention on rectangles. *)
From Coq Require Import Reals ZArith List Bool Lra Lia Permutation.
From Clip Require Import Base.Int64 Model.Arith Base.Geom.
Import ListNotations.
Open Scope R_scope.

(* ------------------------------------------------------------------ *)
(* destruct every Rle_dec / Rlt_dec test in the goal *)
Ltac dec_all :=
  repeat match goal with
  | |- context [Rle_dec ?x ?y] => destruct (Rle_dec x y)
  | |- context [Rlt_dec ?x ?y] => destruct (Rlt_dec x y)
  end.

(* ------------------------------------------------------------------ *)
(* 1. edge reversal *)

Lemma xat_sym : forall a b y, snd a <> snd b -> xat b a y = xat a b y.
Proof.
  intros a b y Hne. unfold xat. field. split; lra.
Qed.

Lemma cr_horiz : forall a b q, snd a = snd b -> cr a b q = 0%Z.
Proof.
  intros a b q Heq. unfold cr.
  destruct (Rle_dec (snd a) (snd q)) as [H1|H1].
  - destruct (Rlt_dec (snd q) (snd b)) as [H2|H2]; [exfalso; lra | reflexivity].
  - destruct (Rle_dec (snd b) (snd q)) as [H2|H2]; [exfalso; lra | reflexivity].
Qed.

Lemma cr_rev : forall a b q, cr b a q = (- cr a b q)%Z.
Proof.
  intros a b q.
  destruct (Req_dec (snd a) (snd b)) as [Heq|Hne].
  - rewrite (cr_horiz a b q Heq). rewrite (cr_horiz b a q (eq_sym Heq)). reflexivity.
  - unfold cr. rewrite (xat_sym a b (snd q) Hne).
    destruct (Rlt_dec (xat a b (snd q)) (fst q)) as [Hx|Hx];
    destruct (Rle_dec (snd a) (snd q)) as [H1|H1];
    destruct (Rlt_dec (snd q) (snd b)) as [H2|H2];
    destruct (Rle_dec (snd b) (snd q)) as [H3|H3];
    destruct (Rlt_dec (snd q) (snd a)) as [H4|H4];
    try reflexivity; exfalso; lra.
Qed.

Lemma cre_rev : forall a b q, cre (b, a) q = (- cre (a, b) q)%Z.
Proof.
  intros a b q. unfold cre. cbn [fst snd]. apply cr_rev.
Qed.

Definition swap_edge (e : edge) : edge := (snd e, fst e).

Lemma cre_swap : forall e q, cre (swap_edge e) q = (- cre e q)%Z.
Proof.
  intros [a b] q. unfold swap_edge. cbn [fst snd]. apply cre_rev.
Qed.

Lemma cre_loop : forall v q, cre (v, v) q = 0%Z.
Proof.
  intros v q. unfold cre. cbn [fst snd]. apply cr_horiz. reflexivity.
Qed.

(* ------------------------------------------------------------------ *)
(* 2-4. additivity and permutation invariance *)

Lemma zsum_app : forall l1 l2, zsum (l1 ++ l2) = (zsum l1 + zsum l2)%Z.
Proof.
  induction l1 as [|x l1 IH]; intros l2.
  - reflexivity.
  - cbn [app zsum fold_right]. fold (zsum (l1 ++ l2)). fold (zsum l1).
    rewrite IH. lia.
Qed.

Lemma wn_edges_nil : forall q, wn_edges [] q = 0%Z.
Proof. reflexivity. Qed.

Lemma wn_edges_cons : forall e E q, wn_edges (e :: E) q = (cre e q + wn_edges E q)%Z.
Proof. reflexivity. Qed.

Lemma wn_edges_app : forall E1 E2 q,
  wn_edges (E1 ++ E2) q = (wn_edges E1 q + wn_edges E2 q)%Z.
Proof.
  intros E1 E2 q. unfold wn_edges. rewrite map_app. apply zsum_app.
Qed.

Lemma wn_edges_perm : forall E1 E2 q,
  Permutation E1 E2 -> wn_edges E1 q = wn_edges E2 q.
Proof.
  intros E1 E2 q HP. induction HP as [|x l l' HP IH|x y l|l l' l'' HP1 IH1 HP2 IH2].
  - reflexivity.
  - rewrite !wn_edges_cons. rewrite IH. reflexivity.
  - rewrite !wn_edges_cons. lia.
  - rewrite IH1. exact IH2.
Qed.

Lemma wn_edges_rev : forall E q, wn_edges (rev E) q = wn_edges E q.
Proof.
  intros E q. apply wn_edges_perm. apply Permutation_sym. apply Permutation_rev.
Qed.

Lemma wn_edges_swap : forall E q,
  wn_edges (map swap_edge E) q = (- wn_edges E q)%Z.
Proof.
  induction E as [|e E IH]; intros q.
  - reflexivity.
  - cbn [map]. rewrite !wn_edges_cons. rewrite IH. rewrite cre_swap. lia.
Qed.

Lemma edges_of_paths_app : forall P1 P2,
  edges_of_paths (P1 ++ P2) = edges_of_paths P1 ++ edges_of_paths P2.
Proof.
  intros P1 P2. unfold edges_of_paths. apply flat_map_app.
Qed.

Lemma wn_nil : forall q, wn [] q = 0%Z.
Proof. reflexivity. Qed.

Lemma wn_single : forall p q, wn [p] q = wn_edges (edges_closed p) q.
Proof.
  intros p q. unfold wn, edges_of_paths. cbn [flat_map]. rewrite app_nil_r. reflexivity.
Qed.

Lemma wn_app : forall P1 P2 q, wn (P1 ++ P2) q = (wn P1 q + wn P2 q)%Z.
Proof.
  intros P1 P2 q. unfold wn. rewrite edges_of_paths_app. apply wn_edges_app.
Qed.

Lemma wn_cons : forall p P q, wn (p :: P) q = (wn [p] q + wn P q)%Z.
Proof.
  intros p P q. change (p :: P) with ([p] ++ P). apply wn_app.
Qed.

Lemma wn_perm : forall P1 P2 q, Permutation P1 P2 -> wn P1 q = wn P2 q.
Proof.
  intros P1 P2 q HP. induction HP as [|x l l' HP IH|x y l|l l' l'' HP1 IH1 HP2 IH2].
  - reflexivity.
  - rewrite (wn_cons x l), (wn_cons x l'). rewrite IH. reflexivity.
  - rewrite (wn_cons y (x :: l)), (wn_cons x l), (wn_cons x (y :: l)), (wn_cons y l). lia.
  - rewrite IH1. exact IH2.
Qed.

(* ------------------------------------------------------------------ *)
(* structure of edges_open *)

Lemma edges_open_cons2 : forall a b l,
  edges_open (a :: b :: l) = (a, b) :: edges_open (b :: l).
Proof. reflexivity. Qed.

Lemma edges_open_split : forall l1 a l2,
  edges_open (l1 ++ a :: l2) = edges_open (l1 ++ [a]) ++ edges_open (a :: l2).
Proof.
  induction l1 as [|x l1 IH]; intros a l2.
  - reflexivity.
  - destruct l1 as [|y l1].
    + reflexivity.
    + change ((x :: y :: l1) ++ a :: l2) with (x :: y :: (l1 ++ a :: l2)).
      change ((x :: y :: l1) ++ [a]) with (x :: y :: (l1 ++ [a])).
      rewrite !edges_open_cons2.
      change (y :: (l1 ++ a :: l2)) with ((y :: l1) ++ a :: l2).
      change (y :: (l1 ++ [a])) with ((y :: l1) ++ [a]).
      rewrite IH. reflexivity.
Qed.

Lemma edges_open_rev : forall l,
  edges_open (rev l) = rev (map swap_edge (edges_open l)).
Proof.
  induction l as [|a l IH].
  - reflexivity.
  - destruct l as [|b l].
    + reflexivity.
    + rewrite edges_open_cons2. cbn [map rev]. rewrite <- IH.
      change (rev (a :: b :: l)) with ((rev l ++ [b]) ++ [a]).
      rewrite <- app_assoc. cbn [app].
      rewrite edges_open_split. cbn [rev]. reflexivity.
Qed.

Lemma edges_closed_cons : forall a t,
  edges_closed (a :: t) = edges_open (a :: t ++ [a]).
Proof. reflexivity. Qed.

(* ------------------------------------------------------------------ *)
(* 6. rotation *)

Lemma edges_closed_rotate : forall p1 p2,
  Permutation (edges_closed (p1 ++ p2)) (edges_closed (p2 ++ p1)).
Proof.
  intros p1 p2.
  destruct p1 as [|a t1].
  - rewrite app_nil_r. apply Permutation_refl.
  - destruct p2 as [|b t2].
    + rewrite app_nil_r. apply Permutation_refl.
    + change ((a :: t1) ++ b :: t2) with (a :: (t1 ++ b :: t2)).
      change ((b :: t2) ++ a :: t1) with (b :: (t2 ++ a :: t1)).
      rewrite !edges_closed_cons.
      replace (a :: (t1 ++ b :: t2) ++ [a]) with ((a :: t1) ++ b :: (t2 ++ [a])).
      2:{ cbn [app]. rewrite <- app_assoc. reflexivity. }
      replace (b :: (t2 ++ a :: t1) ++ [b]) with ((b :: t2) ++ a :: (t1 ++ [b])).
      2:{ cbn [app]. rewrite <- app_assoc. reflexivity. }
      rewrite (edges_open_split (a :: t1) b (t2 ++ [a])).
      rewrite (edges_open_split (b :: t2) a (t1 ++ [b])).
      cbn [app]. apply Permutation_app_comm.
Qed.

Lemma wn_rotate : forall p1 p2 q, wn [p1 ++ p2] q = wn [p2 ++ p1] q.
Proof.
  intros p1 p2 q. rewrite !wn_single. apply wn_edges_perm. apply edges_closed_rotate.
Qed.

(* ------------------------------------------------------------------ *)
(* 5. reversal *)

Lemma wn_rev_path : forall p q, wn [rev p] q = (- wn [p] q)%Z.
Proof.
  intros p q. destruct p as [|a t].
  - reflexivity.
  - cbn [rev]. rewrite (wn_rotate (rev t) [a] q). cbn [app].
    rewrite !wn_single. rewrite !edges_closed_cons.
    replace (a :: rev t ++ [a]) with (rev (a :: t ++ [a])).
    2:{ cbn [rev]. rewrite rev_app_distr. reflexivity. }
    rewrite edges_open_rev. rewrite wn_edges_rev. apply wn_edges_swap.
Qed.

Lemma wn_rev_all : forall P q, wn (map (@rev pt) P) q = (- wn P q)%Z.
Proof.
  induction P as [|p P IH]; intros q.
  - reflexivity.
  - cbn [map]. rewrite (wn_cons (rev p)), (wn_cons p). rewrite IH, wn_rev_path. symmetry; apply Z.opp_add_distr.
Qed.

(* ------------------------------------------------------------------ *)
(* 7. repeated vertices *)

Lemma wn_dup_head : forall v p q, wn [v :: v :: p] q = wn [v :: p] q.
Proof.
  intros v p q. rewrite !wn_single. rewrite !edges_closed_cons.
  change (v :: (v :: p) ++ [v]) with (v :: v :: (p ++ [v])).
  rewrite edges_open_cons2. rewrite wn_edges_cons. rewrite cre_loop. lia.
Qed.

Lemma wn_dup_vertex : forall p1 v p2 q,
  wn [p1 ++ v :: v :: p2] q = wn [p1 ++ v :: p2] q.
Proof.
  intros p1 v p2 q.
  rewrite (wn_rotate p1 (v :: v :: p2) q).
  rewrite (wn_rotate p1 (v :: p2) q).
  cbn [app]. apply wn_dup_head.
Qed.

Lemma wn_dup_close : forall v p q, wn [v :: p ++ [v]] q = wn [v :: p] q.
Proof.
  intros v p q.
  change (v :: p ++ [v]) with ((v :: p) ++ [v]).
  rewrite (wn_rotate (v :: p) [v] q). cbn [app]. apply wn_dup_head.
Qed.

(* ------------------------------------------------------------------ *)
(* 8. fill rules *)

Lemma filled_evenodd_neg : forall w, filled EvenOdd (- w) = filled EvenOdd w.
Proof. intros w. cbn [filled]. apply Z.odd_opp. Qed.

Lemma filled_nonzero_neg : forall w, filled NonZero (- w) = filled NonZero w.
Proof.
  intros w. cbn [filled]. f_equal.
  destruct (Z.eqb_spec (- w) 0) as [H1|H1]; destruct (Z.eqb_spec w 0) as [H2|H2];
    try reflexivity; exfalso; lia.
Qed.

Lemma filled_pos_neg : forall w, filled Positive (- w) = filled Negative w.
Proof.
  intros w. cbn [filled].
  destruct (Z.ltb_spec 0 (- w)) as [H1|H1]; destruct (Z.ltb_spec w 0) as [H2|H2];
    try reflexivity; exfalso; lia.
Qed.

Lemma filled_neg_pos : forall w, filled Negative (- w) = filled Positive w.
Proof.
  intros w. cbn [filled].
  destruct (Z.ltb_spec (- w) 0) as [H1|H1]; destruct (Z.ltb_spec 0 w) as [H2|H2];
    try reflexivity; exfalso; lia.
Qed.

Lemma expected_comm : forall ct s c,
  ct <> Difference -> expected ct s c = expected ct c s.
Proof.
  intros ct s c Hne. destruct ct; try (exfalso; apply Hne; reflexivity);
    destruct s, c; reflexivity.
Qed.

(* ------------------------------------------------------------------ *)
(* 9. translation *)

Definition shift_pt (d : pt) (p : pt) : pt := (px p + px d, py p + py d)%Z.
Definition shift_path (d : pt) : path -> path := map (shift_pt d).
Definition shift_paths (d : pt) : paths -> paths := map (shift_path d).

Definition map_edge (f : pt -> pt) (e : edge) : edge := (f (fst e), f (snd e)).

Lemma edges_open_map : forall f l,
  edges_open (map f l) = map (map_edge f) (edges_open l).
Proof.
  intros f. induction l as [|a l IH].
  - reflexivity.
  - destruct l as [|b l].
    + reflexivity.
    + cbn [map]. rewrite !edges_open_cons2. cbn [map]. f_equal. exact IH.
Qed.

Lemma edges_closed_map : forall f p,
  edges_closed (map f p) = map (map_edge f) (edges_closed p).
Proof.
  intros f p. destruct p as [|a t].
  - reflexivity.
  - cbn [map]. rewrite !edges_closed_cons. rewrite <- edges_open_map.
    cbn [map]. rewrite map_app. reflexivity.
Qed.

Lemma edges_of_paths_map : forall f P,
  edges_of_paths (map (map f) P) = map (map_edge f) (edges_of_paths P).
Proof.
  intros f. induction P as [|p P IH].
  - reflexivity.
  - unfold edges_of_paths in *. cbn [map flat_map]. rewrite map_app.
    rewrite IH. rewrite edges_closed_map. reflexivity.
Qed.

Lemma xat_shift : forall a b y dx dy, snd a <> snd b ->
  xat (fst a + dx, snd a + dy) (fst b + dx, snd b + dy) (y + dy) = xat a b y + dx.
Proof.
  intros a b y dx dy Hne. unfold xat. cbn [fst snd]. field. lra.
Qed.

Lemma cr_shift : forall a b q dx dy,
  cr (fst a + dx, snd a + dy) (fst b + dx, snd b + dy) (fst q + dx, snd q + dy)
  = cr a b q.
Proof.
  intros a b q dx dy.
  destruct (Req_dec (snd a) (snd b)) as [Heq|Hne].
  - rewrite (cr_horiz a b q Heq). apply cr_horiz. cbn [snd]. lra.
  - unfold cr. cbn [fst snd]. rewrite (xat_shift a b (snd q) dx dy Hne).
    destruct (Rlt_dec (xat a b (snd q)) (fst q)) as [Hx|Hx];
    destruct (Rlt_dec (xat a b (snd q) + dx) (fst q + dx)) as [Hx'|Hx'];
    try (exfalso; lra);
    destruct (Rle_dec (snd a) (snd q)) as [H1|H1];
    destruct (Rle_dec (snd a + dy) (snd q + dy)) as [H1'|H1'];
    try (exfalso; lra);
    destruct (Rlt_dec (snd q) (snd b)) as [H2|H2];
    destruct (Rlt_dec (snd q + dy) (snd b + dy)) as [H2'|H2'];
    try (exfalso; lra);
    destruct (Rle_dec (snd b) (snd q)) as [H3|H3];
    destruct (Rle_dec (snd b + dy) (snd q + dy)) as [H3'|H3'];
    try (exfalso; lra); reflexivity.
Qed.

Lemma IP_shift : forall d p,
  IP (shift_pt d p) = (fst (IP p) + IZR (px d), snd (IP p) + IZR (py d)).
Proof.
  intros d p. unfold IP, shift_pt. cbn [px py fst snd]. rewrite !plus_IZR. reflexivity.
Qed.

Lemma cre_shift : forall d e q,
  cre (map_edge (shift_pt d) e) (fst q + IZR (px d), snd q + IZR (py d)) = cre e q.
Proof.
  intros d [a b] q. unfold cre, map_edge. cbn [fst snd].
  rewrite !IP_shift. apply cr_shift.
Qed.

Lemma wn_edges_shift : forall d E q,
  wn_edges (map (map_edge (shift_pt d)) E) (fst q + IZR (px d), snd q + IZR (py d))
  = wn_edges E q.
Proof.
  intros d. induction E as [|e E IH]; intros q.
  - reflexivity.
  - cbn [map]. rewrite !wn_edges_cons. rewrite IH, cre_shift. reflexivity.
Qed.

Lemma wn_shift : forall d P q,
  wn (shift_paths d P) (fst q + IZR (px d), snd q + IZR (py d))%R = wn P q.
Proof.
  intros d P q. unfold wn, shift_paths, shift_path.
  rewrite edges_of_paths_map. apply wn_edges_shift.
Qed.

(* ------------------------------------------------------------------ *)
(* 10. sign convention on rectangles *)

Lemma xat_vert : forall a b y, fst a = fst b -> snd a <> snd b -> xat a b y = fst a.
Proof.
  intros a b y Hx Hy. unfold xat. rewrite Hx. field. lra.
Qed.

(* upward vertical edge at abscissa x from height ya to yb *)
Lemma cr_vert : forall x ya yb q, ya <> yb ->
  cr (x, ya) (x, yb) q =
  if Rle_dec ya (snd q) then
    if Rlt_dec (snd q) yb then if Rlt_dec x (fst q) then (-1)%Z else 0%Z else 0%Z
  else
    if Rle_dec yb (snd q) then if Rlt_dec x (fst q) then 1%Z else 0%Z else 0%Z.
Proof.
  intros x ya yb q Hne. unfold cr. cbn [fst snd].
  rewrite (xat_vert (x, ya) (x, yb) (snd q)); [reflexivity | reflexivity | exact Hne].
Qed.

Lemma wn_rect_eq : forall x0 y0 x1 y1 q, (y0 < y1)%Z ->
  wn [[(x0,y0);(x1,y0);(x1,y1);(x0,y1)]] q =
  (cr (IZR x1, IZR y0) (IZR x1, IZR y1) q + cr (IZR x0, IZR y1) (IZR x0, IZR y0) q)%Z.
Proof.
  intros x0 y0 x1 y1 q Hy.
  rewrite wn_single. unfold edges_closed. cbn [app edges_open].
  rewrite !wn_edges_cons, wn_edges_nil.
  unfold cre, IP. cbn [fst snd px py].
  rewrite (cr_horiz (IZR x0, IZR y0) (IZR x1, IZR y0) q); [|reflexivity].
  rewrite (cr_horiz (IZR x1, IZR y1) (IZR x0, IZR y1) q); [|reflexivity].
  lia.
Qed.

Lemma wn_rect_inside : forall x0 y0 x1 y1 q,
  (x0 < x1)%Z -> (y0 < y1)%Z ->
  (IZR x0 < fst q < IZR x1)%R -> (IZR y0 < snd q < IZR y1)%R ->
  wn [[(x0,y0);(x1,y0);(x1,y1);(x0,y1)]] q = 1%Z.
Proof.
  intros x0 y0 x1 y1 q Hx Hy Hqx Hqy.
  rewrite (wn_rect_eq x0 y0 x1 y1 q Hy).
  pose proof (IZR_lt _ _ Hx) as HX. pose proof (IZR_lt _ _ Hy) as HY.
  rewrite !cr_vert by lra.
  dec_all; try reflexivity; exfalso; lra.
Qed.

Lemma wn_rect_outside : forall x0 y0 x1 y1 q,
  (x0 < x1)%Z -> (y0 < y1)%Z ->
  (fst q < IZR x0 \/ IZR x1 < fst q \/ snd q < IZR y0 \/ IZR y1 < snd q)%R ->
  wn [[(x0,y0);(x1,y0);(x1,y1);(x0,y1)]] q = 0%Z.
Proof.
  intros x0 y0 x1 y1 q Hx Hy Hq.
  rewrite (wn_rect_eq x0 y0 x1 y1 q Hy).
  pose proof (IZR_lt _ _ Hx) as HX. pose proof (IZR_lt _ _ Hy) as HY.
  rewrite !cr_vert by lra.
  dec_all; try reflexivity; exfalso; lra.
Qed.

Print Assumptions wn_rev_all.
Print Assumptions wn_shift.
